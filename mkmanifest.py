#!/usr/bin/env python3
"""Regenerate MANIFEST.json from harness/registry.json (claimed properties) and
properties.jsonl (everything else -> not_applicable with the recorded reason)."""
import json, os
V = os.path.dirname(os.path.abspath(__file__))
reg = json.load(open(os.path.join(V, "harness", "registry.json")))
props = [json.loads(l) for l in open(os.path.join(V, "properties.jsonl"))]
na_reasons = reg.get("not_applicable", {})
checks, na = [], []
for p in props:
    pid = p["id"]
    r = reg["properties"].get(pid)
    if r and not r.get("disabled"):
        checks.append({
            "property_id": pid,
            "quick_cmd": "python3 vcheck.py %s --tier quick" % pid,
            "thorough_cmd": "python3 vcheck.py %s --tier thorough" % pid,
            "evidence_file": "/verif/evidence/%s.json" % pid,
            "replay_cmd_template": "python3 vcheck.py --replay {path}",
            "engine": "gosym",
            "level_claimed": {
                "category": "other",
                "text": "Bounded symbolic execution of the real Go code decided by an SMT solver: every listed obligation holds for all inputs inside the stated bounds (unsat), or a concrete counterexample is replayed natively. " + r.get("claim", ""),
                "design_ref": "DESIGN.md section 7, " + pid,
            },
            "level_note": "Assumes: " + "; ".join(r.get("assumptions", [])) + ". Trusted base: go/ssa, z3 5.1.0, engine intrinsics (store, codec blobs, LegacyDec/Int summaries, time), harness stubs. Bounds per tier in harness/registry.json.",
            "technique": "solver-based bounded symbolic execution of go/ssa (SMT, z3) with native replay of counterexamples",
        })
    else:
        na.append({"property_id": pid, "reason": na_reasons.get(pid, "no harness registered yet in this snapshot; the obligations planned for it are in DESIGN.md section 7")})
man = {
    "version": 1,
    "setup_cmd": "bash setup.sh",
    "hooks": {
        "guard": "verif",
        "enable": "no source hooks in /repo: harness files (//go:build verif) are injected with go/packages Overlay and `go test -tags verif -overlay`",
        "baseline_off_cmd": "for m in $(cat /w/out/gomods.txt); do MF=$(cd /repo/$m && . /w/out/goenv.sh && gomodflag); (cd /repo/$m && go test $MF -json -vet=off -count=1 -timeout 25m ./...); done",
        "source_commits": [],
        "add_only": True,
    },
    "engines": [{"name": "gosym", "path": "engine/", "serves_properties": [c["property_id"] for c in checks],
                 "kind_free_text": "go/ssa symbolic interpreter (path forking + if-conversion state merging) emitting SMT-LIB2 to one long-lived z3 process; symbolic KV store, codec blobs, LegacyDec/Int/time summaries"}],
    "checks": checks,
    "not_applicable": na,
    "notes": "See DESIGN.md. All checks: python3 vcheck.py <id> --tier quick|thorough.",
}
json.dump(man, open(os.path.join(V, "MANIFEST.json"), "w"), indent=1)
print("claimed:", [c["property_id"] for c in checks], "n/a:", len(na))
