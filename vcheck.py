#!/usr/bin/env python3
"""vcheck: decide one property of /verif/properties.jsonl on /repo's current tree.

  vcheck.py <property-id> --tier quick|thorough
  vcheck.py --replay <vector.json>

Technique: bounded symbolic execution of the real Go code (go/ssa -> SMT-LIB2 ->
z3), see DESIGN.md.  The encoding is regenerated from /repo on every run by
bin/gosym; counterexamples are replayed natively (go test -overlay) before they
are reported.
"""
import argparse, json, os, re, subprocess, sys, time, hashlib, shutil

VERIF = os.path.dirname(os.path.abspath(__file__))
REPO = os.environ.get("VERIF_REPO", "/repo")
HARNESS = os.path.join(VERIF, "harness")
GOSYM = os.path.join(VERIF, "bin", "gosym")
MODPATH = "github.com/cosmos/interchain-security/v7"


def goenv():
    env = dict(os.environ)
    env["GOFLAGS"] = "-mod=mod"
    env["GOPROXY"] = "off"
    env.pop("GOTOOLCHAIN", None) if env.get("GOTOOLCHAIN") == "local" else None
    env.pop("GOSUMDB", None) if env.get("GOSUMDB") == "off" else None
    # the repository's test binaries pull in the keyring, which auto-launches a dbus-daemon per run
    # when no session bus address is set; point it at nothing so that replays leave no process behind
    env.setdefault("DBUS_SESSION_BUS_ADDRESS", "unix:path=/nonexistent")
    return env


def ensure_built():
    src_newer = False
    if not os.path.exists(GOSYM):
        src_newer = True
    else:
        bt = os.path.getmtime(GOSYM)
        for root, _, files in os.walk(os.path.join(VERIF, "engine")):
            if "testdata" in root:
                continue
            for f in files:
                if f.endswith(".go") and os.path.getmtime(os.path.join(root, f)) > bt:
                    src_newer = True
    if src_newer:
        os.makedirs(os.path.join(VERIF, "bin"), exist_ok=True)
        env = goenv()
        env["GOTOOLCHAIN"] = "local"
        env["GOSUMDB"] = "off"
        r = subprocess.run(["go", "build", "-o", GOSYM, "./cmd/gosym"], cwd=os.path.join(VERIF, "engine"), env=env)
        if r.returncode != 0:
            print("ERROR: cannot build gosym")
            sys.exit(2)


def load_registry():
    with open(os.path.join(HARNESS, "registry.json")) as f:
        return json.load(f)


def load_known():
    p = os.path.join(VERIF, "known_findings.json")
    if not os.path.exists(p):
        return []
    with open(p) as f:
        return json.load(f).get("findings", [])


def overlay_json(extra=None):
    """overlay for `go test`: every harness file (and replay test) mapped into /repo."""
    rep = {}
    for root, _, files in os.walk(HARNESS):
        for fn in files:
            if not fn.endswith(".go"):
                continue
            full = os.path.join(root, fn)
            rel = os.path.relpath(full, HARNESS)
            rep[os.path.join(REPO, rel)] = full
    if extra:
        rep.update(extra)
    return {"Replace": rep}


def native_replay(pkg, harness, vector_path, timeout=900):
    """run the harness natively on the vector; returns (status, failures, output)"""
    ov = overlay_json()
    ovp = os.path.join(VERIF, "replays", ".overlay-%d.json" % os.getpid())
    os.makedirs(os.path.dirname(ovp), exist_ok=True)
    with open(ovp, "w") as f:
        json.dump(ov, f)
    env = goenv()
    env["VERIF_HARNESS"] = harness
    env["VERIF_VECTOR"] = vector_path
    cmd = ["go", "test", "-tags", "verif", "-vet=off", "-count=1", "-overlay", ovp, "-run", "^TestVerifReplay$", "-v", pkg]
    try:
        r = subprocess.run(cmd, cwd=REPO, env=env, capture_output=True, text=True, timeout=timeout)
        out = r.stdout + r.stderr
    except subprocess.TimeoutExpired:
        return "timeout", [], "native replay timed out"
    finally:
        try:
            os.remove(ovp)
        except OSError:
            pass
    fails = re.findall(r"REPLAY-FAIL: (.*)", out)
    if "REPLAY-ASSUME-VIOLATED" in out:
        return "assume-violated", fails, out
    m = re.search(r"REPLAY-PANIC: (.*)", out)
    if m:
        return "panic", fails + ["panic: " + m.group(1)], out
    if "REPLAY-DONE" not in out:
        return "error", fails, out
    return ("fail" if fails else "clean"), fails, out


def match_known(known, prop, harness, label, model, info):
    for k in known:
        if k.get("status") != "known" or k.get("property") != prop:
            continue
        fp = k.get("fingerprint", {})
        if fp.get("harness") and fp["harness"] != harness:
            continue
        if fp.get("label") and fp["label"] != label:
            continue
        pred = fp.get("model_predicate")
        if pred:
            try:
                env = {kk: (vv == "true" if vv in ("true", "false") else int(vv)) for kk, vv in model.items()}
                if not eval(pred, {"__builtins__": {}, "m": env, "abs": abs, "min": min, "max": max, "any": any, "all": all, "range": range, "len": len}):
                    continue
            except Exception:
                continue
        return k
    return None


def main():
    ap = argparse.ArgumentParser()
    ap.add_argument("prop", nargs="?")
    ap.add_argument("--tier", default=os.environ.get("VERIF_TIER", "quick"))
    ap.add_argument("--replay")
    ap.add_argument("--only", help="run only harnesses whose name contains this")
    ap.add_argument("--keep", action="store_true")
    ap.add_argument("--no-evidence", action="store_true")
    args = ap.parse_args()
    seed = int(os.environ.get("VERIF_SEED", "0") or 0)

    if args.replay:
        args.replay = os.path.abspath(args.replay)
        with open(args.replay) as f:
            vec = json.load(f)
        st, fails, out = native_replay(vec["_pkg"], vec["_harness"], args.replay)
        print("replay status:", st, fails)
        print(out[-3000:])
        sys.exit(1 if st in ("fail", "panic") else 0)

    t0 = time.time()
    ensure_built()
    reg = load_registry()
    prop = args.prop
    if prop not in reg["properties"]:
        print("ERROR: no harnesses registered for", prop)
        sys.exit(2)
    pr = reg["properties"][prop]
    tier = args.tier if args.tier in ("quick", "thorough") else "quick"
    specs = []
    for h in pr["harnesses"]:
        if args.only and args.only not in h["func"]:
            continue
        if tier == "quick" and h.get("thorough_only"):
            continue
        b = dict(h.get("bounds", {}).get("quick", {}))
        if tier == "thorough":
            b.update(h.get("bounds", {}).get("thorough", {}))
        spec = {"pkg": h["pkg"], "func": h["func"], "bounds": b}
        if "max_paths" in h:
            mp = h["max_paths"]
            if isinstance(mp, dict):
                mp = mp.get(tier)
            if mp:
                spec["max_paths"] = mp
        if "max_violations" in h:
            spec["max_violations"] = h["max_violations"]
        ts = h.get("time_s")
        if isinstance(ts, dict):
            ts = ts.get(tier)
        spec["time_s"] = ts or (600 if tier == "quick" else 3600)
        if h.get("map_order"):
            spec["map_order"] = True
        specs.append(spec)
    work = os.path.join(VERIF, "replays", prop)
    os.makedirs(work, exist_ok=True)
    specp = os.path.join(work, "spec-%s.json" % tier)
    outp = os.path.join(work, "result-%s.json" % tier)
    with open(specp, "w") as f:
        json.dump(specs, f)
    qto = 30000 if tier == "quick" else 300000
    cmd = [GOSYM, "-repo", REPO, "-overlay", HARNESS, "-spec", specp, "-out", outp, "-timeout", str(qto)]
    r = subprocess.run(cmd, env=goenv(), capture_output=True, text=True)
    sys.stderr.write(r.stderr[-6000:])
    if r.returncode != 0 or not os.path.exists(outp):
        print("ERROR: symbolic engine failed (exit %d); the harness may no longer compile against /repo" % r.returncode)
        print(r.stderr[-3000:])
        sys.exit(2)
    with open(outp) as f:
        res = json.load(f)

    known = load_known()
    violations, known_hits, inconclusive, disagreements = [], [], [], []
    tot_obl = tot_dis = tot_paths = tot_q = 0
    solver_s = 0.0
    functions = set()
    samples = []
    reached = {}
    bounds_used = {}
    distinct_inputs = set()
    witness = {}
    instance_of = {}
    for hr, h in zip(res["results"], [hh for hh in pr["harnesses"] if not (args.only and args.only not in hh["func"]) and not (tier == "quick" and hh.get("thorough_only"))]):
        if h.get("tag") == "known-finding-witness":
            witness[id(hr)] = True
    for hr in res["results"]:
        name = hr["spec"]["func"]
        bounds_used[name + ("#witness" if witness.get(id(hr)) else "")] = hr["spec"].get("bounds") or {}
        tot_obl += hr.get("obligations", 0)
        tot_dis += hr.get("discharged", 0)
        tot_paths += hr.get("paths", 0)
        tot_q += hr.get("queries", 0)
        solver_s += hr.get("solver_s", 0)
        functions.update(hr.get("functions") or [])
        for s in (hr.get("samples") or [])[:2]:
            samples.append({"harness": name, "path_witness_inputs": s})
            distinct_inputs.add(name + json.dumps(s, sort_keys=True))
        for k, v in (hr.get("reached") or {}).items():
            reached[name + ":" + k] = v
        st = hr["status"]
        if st == "error":
            inconclusive.append("%s: engine error: %s" % (name, hr.get("error")))
        if st == "vacuous":
            inconclusive.append("%s: VACUOUS (no reachability witness)" % name)
        for u in hr.get("unsupported") or []:
            inconclusive.append("%s: UNSUPPORTED %s" % (name, u))
        for u in (hr.get("inconclusive") or [])[:10]:
            if u == "stopped after max violations" and witness.get(id(hr)):
                continue
            inconclusive.append("%s: %s" % (name, u))
        for u in (hr.get("solver_errors") or [])[:3]:
            inconclusive.append("%s: solver error %s" % (name, u))
        seen_labels = set()
        for i, v in enumerate(hr.get("violations") or []):
            key = (v["kind"], v["label"])
            vec = dict(v["model"])
            for bk, bv in (hr["spec"].get("bounds") or {}).items():
                vec["bound." + bk] = str(bv)
            vec["_pkg"], vec["_harness"], vec["_label"], vec["_kind"] = hr["spec"]["pkg"], name, v["label"], v["kind"]
            # several instances of one harness function (different bounds) must not share vector files
            if id(hr) not in instance_of:
                instance_of[id(hr)] = (name, sum(1 for k in instance_of.values() if k[0] == name))
            inst = instance_of[id(hr)]
            vpath = os.path.join(work, "%s-%s%d.json" % (name, ("i%d-" % inst[1]) if inst[1] else "", i))
            with open(vpath, "w") as f:
                json.dump(vec, f, indent=1)
            if v["kind"] == "overflow":
                # machine integers wrap: the native run shows what really happens on this input
                st2, fails, out = native_replay(hr["spec"]["pkg"], name, vpath)
                if st2 in ("fail", "panic") and fails:
                    v = dict(v)
                    v["label"] = fails[0]
                    v["info"] = (v.get("info") or []) + ["integer wrap-around at " + str(v.get("pos")), "native failures: " + "; ".join(fails[:5])]
                    kf = match_known(known, prop, name, v["label"], v["model"], v.get("info"))
                    if kf:
                        known_hits.append((kf, name, v, vpath))
                    else:
                        violations.append((name, v, vpath))
                else:
                    inconclusive.append("%s: arithmetic wrap possible at %s with %s (native run: %s; outside the exact-arithmetic claim)" % (name, v.get("pos"), v["model"], st2))
                continue
            if key in seen_labels and len(seen_labels) > 0 and i > 3:
                continue
            seen_labels.add(key)
            st2, fails, out = native_replay(hr["spec"]["pkg"], name, vpath)
            confirmed = (v["kind"] == "assert" and v["label"] in fails) or (v["kind"] == "panic" and st2 == "panic")
            if not confirmed and st2 in ("fail", "panic") and fails:
                # the native run violates the property on this input, through another assertion of the
                # same harness than the one the solver picked: still a reproduced violation
                v = dict(v)
                v["info"] = (v.get("info") or []) + ["solver label: " + v["label"], "native failures: " + "; ".join(fails[:5])]
                v["label"] = fails[0]
                confirmed = True
            if not confirmed:
                disagreements.append("%s: model for '%s' did not reproduce natively (%s %s): encoding disagreement, vector %s" % (name, v["label"], st2, fails, vpath))
                continue
            kf = match_known(known, prop, name, v["label"], v["model"], v.get("info"))
            if kf:
                known_hits.append((kf, name, v, vpath))
            else:
                violations.append((name, v, vpath))

    wall = time.time() - t0
    for kf, name, v, vpath in known_hits:
        pass
    printed = set()
    for kf, name, v, vpath in known_hits:
        if kf["id"] in printed:
            continue
        printed.add(kf["id"])
        print("KNOWN-FINDING: property=%s %s [%s] (harness %s, e.g. %s)" % (prop, kf["what"], kf["id"], name, json.dumps(v["model"])))
    for d in disagreements:
        print("INCONCLUSIVE (encoding disagreement):", d)
    for inc in inconclusive[:40]:
        print("INCONCLUSIVE:", inc)
    for name, v, vpath in violations:
        print("VIOLATION property=%s replay=%s" % (prop, vpath))
        print("  harness=%s label=%s model=%s info=%s" % (name, v["label"], json.dumps(v["model"]), v.get("info")))

    if not args.no_evidence:
        ev = {
            "property_id": prop,
            "tier": tier,
            "seed": seed,
            "level": "other",
            "coverage": {
                "explanation": "Bounded symbolic execution of the real Go functions (go/ssa of /repo's working tree, regenerated this run) with an SMT solver deciding every assertion over all input values inside the stated bounds; path forks only on shape (list lengths, store presence), data stays symbolic. " + pr.get("claim", ""),
                "obligations": tot_obl,
                "discharged": tot_dis,
                "evaluations": tot_paths,
                "distinct_nontrivial": len(distinct_inputs),
                "rule": "evaluations = symbolic paths explored (each a solver-checked equivalence class of inputs); distinct_nontrivial = distinct satisfying path witnesses sampled (at most 3 per harness), each witnessing a feasible path that reached the assertions",
                "samples": samples[:12] or [{"note": "no completed path"}],
                "checker_cmd": "bin/gosym (z3 5.1.0 via z3-new -in) driven by vcheck.py",
                "trusted_base": ["golang.org/x/tools/go/ssa v0.29.0", "z3 5.1.0", "engine intrinsics for store/codec/math/time (DESIGN.md 2.x)", "harness stubs listed under assumptions"],
                "functions_encoded": sorted(functions),
                "bounds": bounds_used,
                "solver_queries": tot_q,
                "solver_time_s": round(solver_s, 2),
                "reachability_witnesses": reached,
                "inconclusive": (inconclusive + disagreements)[:60],
                "known_findings_matched": sorted(printed),
                "load_s": res.get("load_s"),
            },
            "assumptions": pr.get("assumptions", []),
            "wall_s": round(wall, 2),
            "violations": len(violations),
        }
        os.makedirs(os.path.join(VERIF, "evidence"), exist_ok=True)
        with open(os.path.join(VERIF, "evidence", prop + ".json"), "w") as f:
            json.dump(ev, f, indent=1)
    status = "HOLDS within bounds" if not violations and not inconclusive and not disagreements else ("VIOLATED" if violations else "INCONCLUSIVE in part")
    print("%s %s tier=%s harnesses=%d paths=%d obligations=%d discharged=%d queries=%d solver=%.1fs wall=%.1fs" % (prop, status, tier, len(res["results"]), tot_paths, tot_obl, tot_dis, tot_q, solver_s, wall))
    sys.exit(1 if violations else 0)


if __name__ == "__main__":
    main()
