#!/bin/bash
# quick native compile check of the harness overlay (no symbolic run)
# usage: hcompile.sh [pkg ...]   default: all harness packages
cd /verif
ov=$(mktemp /verif/replays/.ovc-XXXX.json)
python3 -c "
import json,sys
sys.path.insert(0,'/verif')
import vcheck
json.dump(vcheck.overlay_json(), open('$ov','w'))
"
pkgs="${@:-./x/ccv/provider/... ./x/ccv/consumer/keeper ./x/ccv/vh}"
cd ${VERIF_REPO:-/repo} && GOFLAGS=-mod=mod GOPROXY=off go build -tags verif -overlay $ov $pkgs 2>&1 | grep -v "^#" | head -30
rc=${PIPESTATUS[0]}
rm -f $ov
exit $rc
