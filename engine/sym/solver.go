package sym

import (
	"bufio"
	"fmt"
	"io"
	"math/big"
	"os"
	"os/exec"
	"strings"
	"time"
)

// Solver drives one long-lived SMT solver process over stdin/stdout.
type Solver struct {
	cmd      *exec.Cmd
	in       io.WriteCloser
	out      *bufio.Reader
	declared map[string]bool
	defined  map[int]bool
	Level    int
	Queries  int
	SolveDur time.Duration
	Errors   []string
	Log      io.Writer
	Name     string
	timeout  int
	Unknowns int
}

func NewSolver(bin string, timeoutMs int) (*Solver, error) {
	var cmd *exec.Cmd
	switch {
	case strings.Contains(bin, "cvc5"):
		cmd = exec.Command(bin, "--incremental", "--lang=smt2", fmt.Sprintf("--tlimit-per=%d", timeoutMs))
	default:
		cmd = exec.Command(bin, "-in", "-smt2")
	}
	in, err := cmd.StdinPipe()
	if err != nil {
		return nil, err
	}
	outp, err := cmd.StdoutPipe()
	if err != nil {
		return nil, err
	}
	cmd.Stderr = os.Stderr
	if err := cmd.Start(); err != nil {
		return nil, err
	}
	s := &Solver{cmd: cmd, in: in, out: bufio.NewReaderSize(outp, 1<<20), declared: map[string]bool{}, defined: map[int]bool{}, Name: bin, timeout: timeoutMs}
	if strings.Contains(bin, "cvc5") {
		s.send("(set-logic ALL)")
		s.send("(set-option :global-declarations true)")
		s.send("(set-option :produce-models true)")
	} else {
		s.send("(set-option :global-decls true)")
		s.send("(set-option :produce-models true)")
		s.send(fmt.Sprintf("(set-option :timeout %d)", timeoutMs))
	}
	return s, nil
}

func (s *Solver) Close() {
	if s == nil || s.cmd == nil {
		return
	}
	s.in.Close()
	done := make(chan struct{})
	go func() { s.cmd.Wait(); close(done) }()
	select {
	case <-done:
	case <-time.After(2 * time.Second):
		s.cmd.Process.Kill()
	}
}

func (s *Solver) send(line string) {
	if s.Log != nil {
		fmt.Fprintln(s.Log, line)
	}
	io.WriteString(s.in, line+"\n")
}

// emit returns the SMT text of t, emitting declarations / definitions first.
func (s *Solver) emit(t *Term) string {
	switch t.Op {
	case "int", "bool":
		return t.String()
	case "var":
		if !s.declared[t.Name] {
			s.declared[t.Name] = true
			sort := "Int"
			if t.Bool {
				sort = "Bool"
			}
			s.send(fmt.Sprintf("(declare-const %s %s)", t.Name, sort))
		}
		return t.Name
	}
	if s.defined[t.id] {
		return fmt.Sprintf("t!%d", t.id)
	}
	var sb strings.Builder
	sb.WriteString("(" + t.Op)
	for _, a := range t.Args {
		sb.WriteString(" " + s.emit(a))
	}
	sb.WriteString(")")
	if t.size <= 6 {
		return sb.String()
	}
	sort := "Int"
	if t.Bool {
		sort = "Bool"
	}
	s.send(fmt.Sprintf("(define-fun t!%d () %s %s)", t.id, sort, sb.String()))
	s.defined[t.id] = true
	return fmt.Sprintf("t!%d", t.id)
}

func (s *Solver) Push() {
	s.send("(push 1)")
	s.Level++
}

func (s *Solver) Pop(n int) {
	if n <= 0 {
		return
	}
	s.send(fmt.Sprintf("(pop %d)", n))
	s.Level -= n
}

func (s *Solver) Assert(t *Term) {
	txt := s.emit(t)
	s.send("(assert " + txt + ")")
}

// Check returns "sat", "unsat" or "unknown" (any error => unknown).
func (s *Solver) Check() string {
	t0 := time.Now()
	s.send("(check-sat)")
	s.Queries++
	res := "unknown"
	for {
		line, err := s.out.ReadString('\n')
		if err != nil {
			s.Errors = append(s.Errors, "solver died: "+err.Error())
			res = "unknown"
			break
		}
		line = strings.TrimSpace(line)
		if line == "" {
			continue
		}
		if strings.HasPrefix(line, "(error") {
			s.Errors = append(s.Errors, line)
			continue
		}
		if line == "sat" || line == "unsat" || line == "unknown" || line == "timeout" {
			res = line
			if res == "timeout" {
				res = "unknown"
			}
			break
		}
		s.Errors = append(s.Errors, "unexpected: "+line)
	}
	if len(s.Errors) > 0 && res != "unknown" {
		// any error makes the answer untrustworthy
		res = "unknown"
	}
	if res == "unknown" {
		s.Unknowns++
	}
	s.SolveDur += time.Since(t0)
	return res
}

// CheckWith pushes, asserts extra, checks, pops.
func (s *Solver) CheckWith(extra ...*Term) string {
	s.Push()
	for _, e := range extra {
		s.Assert(e)
	}
	r := s.Check()
	s.Pop(1)
	return r
}

// Model returns values of the named variables after a sat answer.
func (s *Solver) Model(vars map[string]bool) map[string]*Term {
	m := map[string]*Term{}
	var names []string
	for n := range vars {
		if s.declared[n] {
			names = append(names, n)
		}
	}
	if len(names) == 0 {
		return m
	}
	s.send("(get-value (" + strings.Join(names, " ") + "))")
	// read balanced s-expression
	depth := 0
	var sb strings.Builder
	started := false
	for {
		r, _, err := s.out.ReadRune()
		if err != nil {
			break
		}
		if r == '(' {
			depth++
			started = true
		}
		if r == ')' {
			depth--
		}
		sb.WriteRune(r)
		if started && depth == 0 {
			break
		}
	}
	txt := sb.String()
	if strings.Contains(txt, "(error") {
		s.Errors = append(s.Errors, txt)
		return m
	}
	toks := tokenize(txt)
	pos := 0
	expr := parseSexp(toks, &pos)
	if lst, ok := expr.([]interface{}); ok {
		for _, pair := range lst {
			p, ok := pair.([]interface{})
			if !ok || len(p) != 2 {
				continue
			}
			name, _ := p[0].(string)
			m[name] = sexpToConst(p[1], vars[name])
		}
	}
	return m
}

func tokenize(s string) []string {
	var toks []string
	cur := ""
	for _, r := range s {
		switch {
		case r == '(' || r == ')':
			if cur != "" {
				toks = append(toks, cur)
				cur = ""
			}
			toks = append(toks, string(r))
		case r == ' ' || r == '\n' || r == '\t' || r == '\r':
			if cur != "" {
				toks = append(toks, cur)
				cur = ""
			}
		default:
			cur += string(r)
		}
	}
	if cur != "" {
		toks = append(toks, cur)
	}
	return toks
}

func parseSexp(toks []string, pos *int) interface{} {
	if *pos >= len(toks) {
		return nil
	}
	t := toks[*pos]
	*pos++
	if t == "(" {
		var lst []interface{}
		for *pos < len(toks) && toks[*pos] != ")" {
			lst = append(lst, parseSexp(toks, pos))
		}
		*pos++
		return lst
	}
	return t
}

func sexpToConst(e interface{}, isBool bool) *Term {
	switch v := e.(type) {
	case string:
		if v == "true" {
			return True
		}
		if v == "false" {
			return False
		}
		n, ok := new(big.Int).SetString(v, 10)
		if ok {
			return IntConst(n)
		}
	case []interface{}:
		if len(v) == 2 {
			if op, _ := v[0].(string); op == "-" {
				inner := sexpToConst(v[1], false)
				if inner != nil && inner.Op == "int" {
					return Neg(inner)
				}
			}
		}
	}
	if isBool {
		return False
	}
	return Int64(0)
}
