package sym

import (
	"crypto/ed25519"
	"crypto/sha256"
	"fmt"
	"go/token"
	"go/types"
	"strings"

	"golang.org/x/tools/go/ssa"
)

func setFieldByName(sv Struct, st *types.Struct, name string, v Value) bool {
	for i := 0; i < st.NumFields(); i++ {
		if st.Field(i).Name() == name {
			sv[i] = v
			return true
		}
	}
	return false
}

func getFieldByName(sv Struct, st *types.Struct, name string) (Value, bool) {
	for i := 0; i < st.NumFields(); i++ {
		if st.Field(i).Name() == name {
			return sv[i], true
		}
	}
	return nil, false
}

// protoTextBytes renders a bytes field as gogoproto's compact text marshaller does.
func protoTextBytes(b []byte) string {
	var sb strings.Builder
	sb.WriteByte('"')
	for _, c := range b {
		switch c {
		case '\n':
			sb.WriteString(`\n`)
		case '\r':
			sb.WriteString(`\r`)
		case '\t':
			sb.WriteString(`\t`)
		case '"':
			sb.WriteString(`\"`)
		case '\\':
			sb.WriteString(`\\`)
		default:
			if c >= 0x20 && c < 0x7f {
				sb.WriteByte(c)
			} else {
				fmt.Fprintf(&sb, "\\%03o", c)
			}
		}
	}
	sb.WriteByte('"')
	return sb.String()
}

func init() {
	reg("VH.PubKeyBytes", func(in *Interp, fn *ssa.Function, a []Value, pos token.Pos) Value {
		i, ok := a[0].(*Term).ConstInt64()
		if !ok {
			in.unsupp("PubKeyBytes of symbolic identity")
		}
		seed := sha256.Sum256([]byte{byte(i)})
		priv := ed25519.NewKeyFromSeed(seed[:])
		return sliceOfBytes([]byte(priv[32:]))
	})
	reg("github.com/cosmos/cosmos-sdk/codec/types.NewAnyWithValue", func(in *Interp, fn *ssa.Function, a []Value, pos token.Pos) Value {
		if isNilIface(a[0]) {
			return tup((*Value)(nil), errIface(&ErrVal{Msg: "Expecting non nil value to create a new Any"}))
		}
		anyT := fn.Signature.Results().At(0).Type().(*types.Pointer).Elem()
		st := anyT.Underlying().(*types.Struct)
		sv := zero(anyT).(Struct)
		setFieldByName(sv, st, "cachedValue", a[0])
		setFieldByName(sv, st, "TypeUrl", "/"+a[0].(Iface).T.String())
		setFieldByName(sv, st, "Value", blobSlice(a[0], "any"))
		p := new(Value)
		*p = sv
		return tup(p, Iface{})
	})
	// tendermint crypto PublicKey text form (map keys, sort tie-breaks)
	pkString := func(in *Interp, fn *ssa.Function, a []Value, pos token.Pos) Value {
		var sv Struct
		switch x := a[0].(type) {
		case *Value:
			if x == nil {
				return "nil"
			}
			sv = (*x).(Struct)
		case Struct:
			sv = x
		}
		sum, _ := sv[0].(Iface)
		if sum.T == nil {
			return ""
		}
		inner, ok := sum.V.(*Value)
		if !ok || inner == nil {
			in.unsupp("PublicKey.String: unexpected oneof representation")
		}
		field := (*inner).(Struct)[0].(Slice)
		b, ok := bytesOf(field.V)
		if !ok {
			in.unsupp("PublicKey.String of symbolic key bytes")
		}
		name := "ed25519"
		if strings.Contains(sum.T.String(), "Secp256K1") {
			name = "secp256k1"
		}
		return name + ":" + protoTextBytes(b) + " "
	}
	reg("(*github.com/cometbft/cometbft/proto/tendermint/crypto.PublicKey).String", pkString)
}

func init() {
	// CometBFT validator-set construction / hashing: structural stubs (the
	// hash only flows into the stored consensus state of the created client)
	reg("(github.com/cometbft/cometbft/types.pb2tm).ValidatorUpdates", func(in *Interp, fn *ssa.Function, a []Value, pos token.Pos) Value {
		ups := a[1].(Slice)
		elemPtr := fn.Signature.Results().At(0).Type().(*types.Slice).Elem()
		out := make([]Value, len(ups.V))
		for i := range out {
			p := new(Value)
			*p = zero(elemPtr.(*types.Pointer).Elem())
			out[i] = p
		}
		return tup(Slice{out}, Iface{})
	})
	reg("github.com/cometbft/cometbft/types.NewValidatorSet", func(in *Interp, fn *ssa.Function, a []Value, pos token.Pos) Value {
		p := new(Value)
		*p = zero(fn.Signature.Results().At(0).Type().(*types.Pointer).Elem())
		return p
	})
	reg("(*github.com/cometbft/cometbft/types.ValidatorSet).Hash", func(in *Interp, fn *ssa.Function, a []Value, pos token.Pos) Value {
		h := make([]byte, 32)
		for i := range h {
			h[i] = 0x42
		}
		return sliceOfBytes(h)
	})
}
