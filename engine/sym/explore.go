package sym

import (
	"fmt"
	"math/big"
	"time"
	"sort"
	"strings"
)

// pathEnd is panicked (Go panic) to terminate the current path.
type pathEnd struct {
	kind   string // "infeasible" "unsupported" "violation" "budget" "stop"
	reason string
}

// GoPanic models a panic raised by interpreted code.
type GoPanic struct {
	Val Value
	Pos string
	Msg string
}

type trailEntry struct {
	kind    int // 0 branch, 1 choice, 2 assume, 3 mark (assert / flush already done)
	val     int
	n       int
	cond    *Term
	forced  bool
	spec    bool // decided inside a speculated arm (never asserted, no alternative)
	altDone bool
	pushed  bool
	what    string
}

type Violation struct {
	Kind  string            `json:"kind"` // assert | panic | overflow
	Label string            `json:"label"`
	Pos   string            `json:"pos,omitempty"`
	Model map[string]string `json:"model"`
	Path  int               `json:"path"`
	Info  []string          `json:"info,omitempty"`
}

type showEntry struct {
	name string
	t    *Term
}

// Show records a named term whose value is reported with any violation.
func (e *Explorer) Show(name string, t *Term) { e.shows = append(e.shows, showEntry{name, t}) }

type ovfOb struct {
	cond *Term
	pos  string
}

type Explorer struct {
	S        *Solver
	trail    []trailEntry
	pos      int
	Inputs   map[string]bool // declared harness input variables (name -> isBool)
	InputOrd []string
	fresh    int
	ovf      []ovfOb

	MaxPaths      int
	MaxViolations int

	// results
	Paths        int
	Completed    int
	Infeasible   int
	Unsupported  map[string]int
	Obligations  int
	Discharged   int
	Trivial      int
	Inconclusive []string
	Violations   []Violation
	Reached      map[string]int
	Branches     int
	pathInfo     []string
	shows        []showEntry
	Samples      []map[string]string
	BudgetHit    bool
	Guard        func(*Term) *Term
	ArmGuards    func() []*Term
	defs         []*Term
	detPos       int
	detCnt       int
	Deadline     time.Time
	Progress     func(string)
	lastProgress time.Time
	NoFork       int // >0 while speculating: any fork/assume/assert aborts the speculation
}

func NewExplorer(s *Solver) *Explorer {
	return &Explorer{S: s, Inputs: map[string]bool{}, Unsupported: map[string]int{}, Reached: map[string]int{}, MaxPaths: 20000, MaxViolations: 8}
}

func (e *Explorer) FreshName(prefix string) string {
	e.fresh++
	return fmt.Sprintf("%s!%d", sanitize(prefix), e.fresh)
}

func sanitize(s string) string {
	var sb strings.Builder
	for _, r := range s {
		if r >= 'a' && r <= 'z' || r >= 'A' && r <= 'Z' || r >= '0' && r <= '9' || r == '_' || r == '.' {
			sb.WriteRune(r)
		} else {
			sb.WriteRune('_')
		}
	}
	return sb.String()
}

// Input declares (or re-uses, on re-execution) a named harness input.
func (e *Explorer) Input(name string, isBool bool) *Term {
	name = sanitize(name)
	if _, ok := e.Inputs[name]; !ok {
		e.Inputs[name] = isBool
		e.InputOrd = append(e.InputOrd, name)
	}
	return Var(name, isBool)
}

// FreshDet returns a variable whose name depends only on the position in the
// decision trail, so that re-executions of the same path prefix re-create the
// same variable.
func (e *Explorer) FreshDet(prefix string, isBool bool) *Term {
	if e.detPos != e.pos {
		e.detPos, e.detCnt = e.pos, 0
	}
	e.detCnt++
	return Var(fmt.Sprintf("%s!%d_%d", prefix, e.pos, e.detCnt), isBool)
}

// Define records an always-satisfiable definitional constraint about fresh
// variables; it is asserted before the next solver interaction.
func (e *Explorer) Define(c *Term) { e.defs = append(e.defs, c) }

func (e *Explorer) flushDefs() {
	if len(e.defs) == 0 || e.NoFork > 0 {
		return
	}
	d := And(e.defs...)
	e.defs = nil
	e.Assume(d)
}

// DivTrunc returns Go's truncated quotient a/b for a symbolic divisor b != 0
// using a fresh quotient/remainder pair instead of the SMT div operator.
func (e *Explorer) DivTrunc(a, b *Term) *Term {
	if b.Op == "int" {
		return QuoTrunc(a, b)
	}
	q := e.FreshDet("q", false)
	r := e.FreshDet("r", false)
	zero := Int64(0)
	absB := Ite(Ge(b, zero), b, Neg(b))
	absR := Ite(Ge(r, zero), r, Neg(r))
	sameSign := Or(Eq(r, zero), Eq(Ge(r, zero), Ge(a, zero)))
	e.Define(Implies(Not(Eq(b, zero)), And(Eq(a, Add(Mul(q, b), r)), Lt(absR, absB), sameSign)))
	return q
}

func (e *Explorer) Unsupp(format string, args ...interface{}) {
	panic(&pathEnd{kind: "unsupported", reason: fmt.Sprintf(format, args...)})
}

// Branch decides a symbolic condition, forking the exploration when both
// sides are feasible.
func (e *Explorer) Branch(c *Term, what string) bool {
	if c.Op == "bool" {
		return c.B
	}
	if e.NoFork > 0 {
		// inside a speculated arm: a branch that is decided by the path
		// condition and the arm guards needs no fork
		if e.pos < len(e.trail) {
			// re-execution: reproduce the recorded in-arm decision (or the abort)
			t := &e.trail[e.pos]
			if t.kind == 0 && t.spec {
				e.pos++
				return t.val == 1
			}
			panic(&specAbort{"fork inside arm: " + what})
		}
		if e.ArmGuards != nil && len(e.defs) == 0 {
			gs := e.ArmGuards()
			if r := e.S.CheckWith(append(gs, c)...); r == "unsat" {
				e.trail = append(e.trail, trailEntry{kind: 0, val: 0, forced: true, spec: true, what: what})
				e.pos++
				return false
			}
			if r := e.S.CheckWith(append(gs, Not(c))...); r == "unsat" {
				e.trail = append(e.trail, trailEntry{kind: 0, val: 1, forced: true, spec: true, what: what})
				e.pos++
				return true
			}
		}
		panic(&specAbort{"fork inside arm: " + what})
	}
	e.flushDefs()
	if e.pos < len(e.trail) {
		t := &e.trail[e.pos]
		if t.kind != 0 || t.spec {
			panic(fmt.Sprintf("non-deterministic re-execution: expected kind %d (%s) got branch %s", t.kind, t.what, what))
		}
		e.pos++
		return t.val == 1
	}
	e.Branches++
	if !e.Deadline.IsZero() && e.Branches%64 == 0 && time.Now().After(e.Deadline) {
		panic(&pathEnd{kind: "unsupported", reason: "time budget exhausted inside a path"})
	}
	if e.Progress != nil && time.Since(e.lastProgress) > 15*time.Second {
		e.lastProgress = time.Now()
		e.Progress(fmt.Sprintf("paths=%d branches=%d queries=%d trail=%d last=%s", e.Paths, e.Branches, e.S.Queries, len(e.trail), what))
	}
	r1 := e.S.CheckWith(c)
	if r1 == "unsat" {
		e.trail = append(e.trail, trailEntry{kind: 0, val: 0, forced: true, what: what})
		e.pos++
		return false
	}
	r2 := e.S.CheckWith(Not(c))
	if r2 == "unsat" {
		e.trail = append(e.trail, trailEntry{kind: 0, val: 1, forced: true, what: what})
		e.pos++
		return true
	}
	e.S.Push()
	e.S.Assert(c)
	e.trail = append(e.trail, trailEntry{kind: 0, val: 1, cond: c, pushed: true, what: what})
	e.pos++
	return true
}

// Choose returns a nondeterministic value in [0,n) explored exhaustively.
func (e *Explorer) Choose(n int, what string) int {
	if n <= 1 {
		return 0
	}
	if e.NoFork > 0 {
		panic(&specAbort{"choice inside arm"})
	}
	if e.pos < len(e.trail) {
		t := &e.trail[e.pos]
		if t.kind != 1 {
			panic("non-deterministic re-execution (choice) " + what + " vs " + t.what)
		}
		e.pos++
		return t.val
	}
	e.trail = append(e.trail, trailEntry{kind: 1, val: 0, n: n, what: what})
	e.pos++
	return 0
}

func (e *Explorer) Assume(c *Term) {
	if e.NoFork > 0 {
		panic(&specAbort{"assume inside arm"})
	}
	e.flushDefs()
	if c.Op == "bool" {
		if !c.B {
			panic(&pathEnd{kind: "infeasible"})
		}
		return
	}
	if e.pos < len(e.trail) {
		t := &e.trail[e.pos]
		if t.kind != 2 {
			panic("non-deterministic re-execution (assume) vs " + t.what)
		}
		e.pos++
		return
	}
	e.S.Push()
	e.S.Assert(c)
	if e.S.Check() == "unsat" {
		e.S.Pop(1)
		panic(&pathEnd{kind: "infeasible"})
	}
	e.trail = append(e.trail, trailEntry{kind: 2, cond: c, pushed: true, what: "assume"})
	e.pos++
}

func (e *Explorer) replaying() bool { return e.pos < len(e.trail) }

// mark records a step that must not be repeated on re-execution. It returns
// the existing entry when replaying, else nil.
func (e *Explorer) mark(what string) *trailEntry {
	if e.pos < len(e.trail) {
		t := &e.trail[e.pos]
		if t.kind != 3 {
			panic("non-deterministic re-execution (mark " + what + ") vs " + t.what)
		}
		e.pos++
		return t
	}
	e.trail = append(e.trail, trailEntry{kind: 3, what: what})
	e.pos++
	return nil
}

func (e *Explorer) AddOverflowOb(c *Term, pos string) {
	if e.Guard != nil {
		c = e.Guard(c)
	}
	if c.Op == "bool" && c.B {
		return
	}
	e.ovf = append(e.ovf, ovfOb{c, pos})
}

func (e *Explorer) model() map[string]string {
	m := e.S.Model(e.Inputs)
	out := map[string]string{}
	for _, n := range e.InputOrd {
		if v, ok := m[n]; ok {
			if v.Op == "bool" {
				out[n] = fmt.Sprint(v.B)
			} else {
				out[n] = v.I.String()
			}
		}
	}
	return out
}

// modelWith checks pc ∧ extra and, if sat, returns the model.
func (e *Explorer) modelWith(extra ...*Term) (string, map[string]string) {
	e.S.Push()
	for _, x := range extra {
		e.S.Assert(x)
	}
	r := e.S.Check()
	var m map[string]string
	if r == "sat" {
		m = e.model()
	}
	e.S.Pop(1)
	return r, m
}

func (e *Explorer) addViolation(v Violation) {
	v.Path = e.Paths
	v.Info = append([]string{}, e.pathInfo...)
	if len(e.shows) > 0 && v.Model != nil {
		mt := map[string]*Term{}
		for k, s := range v.Model {
			if s == "true" || s == "false" {
				mt[k] = BoolConst(s == "true")
			} else if n, ok := new(big.Int).SetString(s, 10); ok {
				mt[k] = IntConst(n)
			}
		}
		for _, sh := range e.shows {
			v.Info = append(v.Info, sh.name+" = "+sh.t.Eval(mt).String())
		}
	}
	e.Violations = append(e.Violations, v)
}

// FlushOverflow discharges the pending arithmetic-range obligations.
func (e *Explorer) FlushOverflow() {
	e.flushDefs()
	if len(e.ovf) == 0 {
		return
	}
	obs := e.ovf
	e.ovf = nil
	var conds []*Term
	for _, o := range obs {
		conds = append(conds, o.cond)
	}
	all := And(conds...)
	if e.mark("flush") != nil {
		// replay: the corresponding assume entry is consumed below
		e.Assume(all)
		return
	}
	e.Obligations++
	r, m := e.modelWith(Not(all))
	switch r {
	case "unsat":
		e.Discharged++
	case "sat":
		// find which one
		pos := obs[0].pos
		var where []string
		for _, o := range obs {
			if rr := e.S.CheckWith(Not(o.cond)); rr != "unsat" {
				where = append(where, o.pos)
				if len(where) >= 3 {
					break
				}
			}
		}
		if len(where) > 0 {
			pos = strings.Join(where, ";")
		}
		e.addViolation(Violation{Kind: "overflow", Label: "arithmetic overflow/wrap possible", Pos: pos, Model: m})
	default:
		e.Inconclusive = append(e.Inconclusive, "overflow obligation unknown at "+obs[0].pos)
	}
	e.Assume(all)
}

// Assert checks the property under the current path condition.
func (e *Explorer) Assert(c *Term, label string) {
	if e.NoFork > 0 {
		panic(&specAbort{"assert inside arm"})
	}
	e.FlushOverflow()
	if t := e.mark("assert:" + label); t != nil {
		if t.val == 1 {
			e.Assume(c)
		}
		return
	}
	me := len(e.trail) - 1
	e.Obligations++
	if c.Op == "bool" && c.B {
		e.Discharged++
		e.Trivial++
		return
	}
	r, m := e.modelWith(Not(c))
	switch r {
	case "unsat":
		e.Discharged++
	case "sat":
		e.addViolation(Violation{Kind: "assert", Label: label, Model: m})
		panic(&pathEnd{kind: "violation", reason: label})
	default:
		e.Inconclusive = append(e.Inconclusive, "assert unknown: "+label)
		e.trail[me].val = 1
		e.Assume(c)
	}
}

func (e *Explorer) Reach(label string) {
	if !e.replaying() {
		e.Reached[label]++
	}
}

func (e *Explorer) Info(s string) { e.pathInfo = append(e.pathInfo, s) }

// backtrack flips the deepest open decision. Returns false when exhausted.
func (e *Explorer) backtrack() bool {
	for len(e.trail) > 0 {
		i := len(e.trail) - 1
		t := &e.trail[i]
		switch t.kind {
		case 0:
			if !t.forced && !t.altDone {
				// flip
				if t.pushed {
					e.S.Pop(1)
				}
				t.val = 0
				t.altDone = true
				e.S.Push()
				e.S.Assert(Not(t.cond))
				t.pushed = true
				return true
			}
		case 1:
			if t.val+1 < t.n {
				t.val++
				return true
			}
		}
		if t.pushed {
			e.S.Pop(1)
		}
		e.trail = e.trail[:i]
	}
	return false
}

// Run explores all paths of body.
func (e *Explorer) Run(body func()) {
	for {
		e.pos = 0
		e.ovf = nil
		e.defs = nil
		e.detPos, e.detCnt = -1, 0
		e.pathInfo = nil
		e.shows = nil
		e.Paths++
		e.runOne(body)
		if len(e.Violations) >= e.MaxViolations {
			e.Inconclusive = append(e.Inconclusive, "stopped after max violations")
			break
		}
		if !e.Deadline.IsZero() && time.Now().After(e.Deadline) {
			e.BudgetHit = true
			e.Inconclusive = append(e.Inconclusive, fmt.Sprintf("time budget exhausted after %d paths", e.Paths))
			break
		}
		if e.Paths >= e.MaxPaths {
			e.BudgetHit = true
			e.Inconclusive = append(e.Inconclusive, fmt.Sprintf("path budget %d exhausted", e.MaxPaths))
			break
		}
		if !e.backtrack() {
			break
		}
	}
	// unwind solver
	for i := len(e.trail) - 1; i >= 0; i-- {
		if e.trail[i].pushed {
			e.S.Pop(1)
		}
	}
	e.trail = nil
}

func (e *Explorer) runOne(body func()) {
	defer func() {
		if r := recover(); r != nil {
			switch x := r.(type) {
			case *pathEnd:
				switch x.kind {
				case "infeasible":
					e.Infeasible++
				case "unsupported":
					e.Unsupported[x.reason]++
				case "violation":
				case "stop":
					e.Completed++
				}
			case *GoPanic:
				// a panic escaping the harness: violation unless infeasible
				func() {
					defer func() {
						if r2 := recover(); r2 != nil {
							if pe, ok := r2.(*pathEnd); ok && pe.kind == "infeasible" {
								e.Infeasible++
								return
							}
							panic(r2)
						}
					}()
					e.FlushOverflow()
					r, m := e.modelWith()
					if r == "unsat" {
						e.Infeasible++
						return
					}
					e.addViolation(Violation{Kind: "panic", Label: "panic: " + x.Msg, Pos: x.Pos, Model: m})
				}()
			default:
				panic(r)
			}
		}
	}()
	body()
	e.FlushOverflow()
	e.Completed++
	if len(e.Samples) < 3 {
		if r, m := e.modelWith(); r == "sat" {
			e.Samples = append(e.Samples, m)
		}
	}
}

func (e *Explorer) UnsupportedList() []string {
	var out []string
	for k, n := range e.Unsupported {
		out = append(out, fmt.Sprintf("%s (x%d)", k, n))
	}
	sort.Strings(out)
	return out
}
