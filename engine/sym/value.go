package sym

import (
	"fmt"
	"go/types"
	"math/big"
	"sort"
	"strings"

	"golang.org/x/tools/go/ssa"
)

// Value is one of:
//   *Term                 bool / integer of any width
//   string                concrete string
//   *SymStr               opaque (unknown) string
//   Struct, Array         aggregates (value semantics, copied on load/store)
//   *Value                pointer
//   Slice                 slice header over shared []Value storage
//   *Map                  map (nil pointer = nil map)
//   Iface                 interface value (T == nil && V == nil => nil interface)
//   *ssa.Function, *ssa.Builtin, *Closure, *BoundIntrinsic   callables
//   Tuple                 multiple results
//   *Opaque               engine-level object (context, store, iterator, codec, ...)
//   BigInt, Dec, Time     summaries of math.Int, math.LegacyDec, time.Time
//   TimeByte, BEByte      symbolic bytes of formatted times / big-endian integers
//   Junk                  value of an unmodelled kind (floats, ...)
type Value interface{}

type Struct []Value
type Array []Value
type Tuple []Value

type Slice struct {
	V []Value // nil => nil slice
}

// MaybeNil is a byte slice read from the store whose presence is symbolic:
// it is nil iff Nil holds, otherwise it is S.
type MaybeNil struct {
	S   Slice
	Nil *Term
}

// SymStr is an opaque string; Num, when set, says the string is the decimal
// text of that integer term.
type SymStr struct {
	Desc  string
	Num   *Term
	Bytes []Value // set for string(b) of non-concrete bytes: []byte(s) gives them back
}

type Iface struct {
	T types.Type
	V Value
}

type Closure struct {
	Fn  *ssa.Function
	Env []Value
}

type Map struct {
	Keys  []Value
	Vals  []Value
	index map[string]int
}

type Opaque struct {
	Kind string
	Data interface{}
}

// BigInt summarises cosmossdk.io/math.Int (T == nil: nil Int).
type BigInt struct{ T *Term }

// Dec summarises math.LegacyDec: T is the raw integer (value * 10^18).
type Dec struct{ T *Term }

// Time summarises time.Time as nanoseconds since the Unix epoch.
type Time struct{ T *Term }

type TimeByte struct {
	T *Term
	I int
}

type BEByte struct {
	T *Term
	I int // 0 = most significant
	N int // total bytes (8 or 4)
}

type Junk struct{ Why string }

// zero time of Go: January 1, year 1 UTC in ns relative to the Unix epoch.
var zeroTimeNs = func() *big.Int {
	v := big.NewInt(-62135596800)
	return v.Mul(v, big.NewInt(1000000000))
}()

func ZeroTime() Time { return Time{IntConst(zeroTimeNs)} }

func NewMap() *Map { return &Map{index: map[string]int{}} }

// keyString gives a canonical string for concrete, hashable values.
func keyString(v Value) (string, bool) {
	switch x := v.(type) {
	case *Term:
		if x.IsConst() {
			return x.String(), true
		}
		return "", false
	case string:
		return "s:" + x, true
	case Struct:
		var parts []string
		for _, f := range x {
			s, ok := keyString(f)
			if !ok {
				return "", false
			}
			parts = append(parts, s)
		}
		return "{" + strings.Join(parts, ",") + "}", true
	case Array:
		var parts []string
		for _, f := range x {
			s, ok := keyString(f)
			if !ok {
				return "", false
			}
			parts = append(parts, s)
		}
		return "[" + strings.Join(parts, ",") + "]", true
	case Iface:
		if x.T == nil {
			return "nil", true
		}
		s, ok := keyString(x.V)
		return x.T.String() + ":" + s, ok
	case *Value:
		return fmt.Sprintf("p:%p", x), true
	}
	return "", false
}

func (m *Map) Lookup(k Value) (Value, bool, bool) {
	ks, ok := keyString(k)
	if !ok {
		return nil, false, false
	}
	if m == nil {
		return nil, false, true
	}
	i, found := m.index[ks]
	if !found {
		return nil, false, true
	}
	return m.Vals[i], true, true
}

func (m *Map) Set(k, v Value) bool {
	ks, ok := keyString(k)
	if !ok {
		return false
	}
	if i, found := m.index[ks]; found {
		m.Vals[i] = v
		return true
	}
	m.index[ks] = len(m.Keys)
	m.Keys = append(m.Keys, k)
	m.Vals = append(m.Vals, v)
	return true
}

func (m *Map) Delete(k Value) bool {
	ks, ok := keyString(k)
	if !ok {
		return false
	}
	if m == nil {
		return true
	}
	i, found := m.index[ks]
	if !found {
		return true
	}
	m.Keys = append(m.Keys[:i:i], m.Keys[i+1:]...)
	m.Vals = append(m.Vals[:i:i], m.Vals[i+1:]...)
	m.index = map[string]int{}
	for j, kk := range m.Keys {
		s, _ := keyString(kk)
		m.index[s] = j
	}
	return true
}

func (m *Map) Len() int {
	if m == nil {
		return 0
	}
	return len(m.Keys)
}

// SortedOrder returns key indices in canonical (keyString) order.
func (m *Map) SortedOrder() []int {
	idx := make([]int, len(m.Keys))
	ks := make([]string, len(m.Keys))
	for i := range idx {
		idx[i] = i
		ks[i], _ = keyString(m.Keys[i])
	}
	sort.Slice(idx, func(a, b int) bool { return ks[idx[a]] < ks[idx[b]] })
	return idx
}

// copyVal implements value semantics for aggregates.
func copyVal(v Value) Value {
	switch x := v.(type) {
	case Struct:
		out := make(Struct, len(x))
		for i, f := range x {
			out[i] = copyVal(f)
		}
		return out
	case Array:
		out := make(Array, len(x))
		for i, f := range x {
			out[i] = copyVal(f)
		}
		return out
	case Tuple:
		out := make(Tuple, len(x))
		for i, f := range x {
			out[i] = copyVal(f)
		}
		return out
	case Iface:
		// interface holding a struct value: value semantics too
		return Iface{x.T, copyVal(x.V)}
	}
	return v
}

// deepCopy clones a value including everything reachable through pointers,
// slices and maps (used for marshalling into the store model).
func deepCopy(v Value, seen map[*Value]*Value) Value {
	switch x := v.(type) {
	case Struct:
		out := make(Struct, len(x))
		for i, f := range x {
			out[i] = deepCopy(f, seen)
		}
		return out
	case Array:
		out := make(Array, len(x))
		for i, f := range x {
			out[i] = deepCopy(f, seen)
		}
		return out
	case Tuple:
		out := make(Tuple, len(x))
		for i, f := range x {
			out[i] = deepCopy(f, seen)
		}
		return out
	case Slice:
		if x.V == nil {
			return x
		}
		out := make([]Value, len(x.V))
		for i, f := range x.V {
			out[i] = deepCopy(f, seen)
		}
		return Slice{out}
	case *Value:
		if x == nil {
			return x
		}
		if p, ok := seen[x]; ok {
			return p
		}
		np := new(Value)
		seen[x] = np
		*np = deepCopy(*x, seen)
		return np
	case *Map:
		if x == nil {
			return x
		}
		nm := NewMap()
		for i, k := range x.Keys {
			nm.Set(deepCopy(k, seen), deepCopy(x.Vals[i], seen))
		}
		return nm
	case Iface:
		return Iface{x.T, deepCopy(x.V, seen)}
	case MaybeNil:
		return MaybeNil{deepCopy(x.S, seen).(Slice), x.Nil}
	case Blob:
		return Blob{V: deepCopy(x.V, seen), Typ: x.Typ}
	}
	return v
}

func DeepCopy(v Value) Value { return deepCopy(v, map[*Value]*Value{}) }

func isNamed(t types.Type, pkg, name string) bool {
	n, ok := t.(*types.Named)
	if !ok {
		return false
	}
	o := n.Obj()
	return o.Name() == name && o.Pkg() != nil && o.Pkg().Path() == pkg
}

const (
	pkgMath = "cosmossdk.io/math"
	pkgSDK  = "github.com/cosmos/cosmos-sdk/types"
)

// zero returns the zero value of a type.
func zero(t types.Type) Value {
	switch {
	case isNamed(t, pkgMath, "Int"), isNamed(t, pkgMath, "Uint"):
		return BigInt{}
	case isNamed(t, pkgMath, "LegacyDec"):
		return Dec{}
	case isNamed(t, "time", "Time"):
		return ZeroTime()
	case isNamed(t, pkgSDK, "Context"):
		return &Opaque{Kind: "ctx", Data: (*CtxData)(nil)}
	}
	switch t := t.(type) {
	case *types.Basic:
		if t.Kind() == types.UntypedNil {
			panic("untyped nil has no zero value")
		}
		if t.Info()&types.IsBoolean != 0 {
			return False
		}
		if t.Info()&types.IsInteger != 0 {
			return Int64(0)
		}
		if t.Info()&types.IsString != 0 {
			return ""
		}
		if t.Kind() == types.UnsafePointer {
			return (*Value)(nil)
		}
		return Junk{"float/complex"}
	case *types.Pointer:
		return (*Value)(nil)
	case *types.Array:
		a := make(Array, t.Len())
		for i := range a {
			a[i] = zero(t.Elem())
		}
		return a
	case *types.Named:
		return zero(t.Underlying())
	case *types.Alias:
		return zero(types.Unalias(t))
	case *types.Interface:
		return Iface{}
	case *types.Slice:
		return Slice{}
	case *types.Struct:
		s := make(Struct, t.NumFields())
		for i := range s {
			s[i] = zero(t.Field(i).Type())
		}
		return s
	case *types.Tuple:
		if t.Len() == 1 {
			return zero(t.At(0).Type())
		}
		s := make(Tuple, t.Len())
		for i := range s {
			s[i] = zero(t.At(i).Type())
		}
		return s
	case *types.Chan:
		return &Opaque{Kind: "nilchan"}
	case *types.Map:
		return (*Map)(nil)
	case *types.Signature:
		return (*ssa.Function)(nil)
	case *types.TypeParam:
		panic("zero of type parameter")
	}
	panic(fmt.Sprintf("zero: unexpected type %T %v", t, t))
}

// bytesOf extracts concrete bytes from a slice/array of byte terms.
func bytesOf(vs []Value) ([]byte, bool) {
	out := make([]byte, len(vs))
	for i, v := range vs {
		t, ok := v.(*Term)
		if !ok || t.Op != "int" {
			return nil, false
		}
		out[i] = byte(t.I.Int64())
	}
	return out, true
}

func bytesToVals(b []byte) []Value {
	out := make([]Value, len(b))
	for i, c := range b {
		out[i] = Int64(int64(c))
	}
	return out
}

func sliceOfBytes(b []byte) Slice {
	if b == nil {
		return Slice{}
	}
	return Slice{bytesToVals(b)}
}
