package sym

import (
	"crypto/ed25519"
	"crypto/sha256"
	"go/token"

	"golang.org/x/tools/go/ssa"
)

// SigTag is the first element of a modelled 64-byte ed25519 signature: it
// records the signing key and the signed message (deep copy of the canonical
// sign-bytes content).  Verification succeeds iff key and message agree -
// signatures are unforgeable and injective, which is all the module relies on.
type SigTag struct {
	Key []byte
	Msg Value
}

// deepEq: structural equality of two values as a (possibly symbolic) bool.
func (in *Interp) deepEq(a, b Value) *Term {
	switch x := a.(type) {
	case nil:
		return BoolConst(b == nil)
	case *Term:
		y, ok := b.(*Term)
		if !ok || x.Bool != y.Bool {
			return False
		}
		return Eq(x, y)
	case string:
		y, ok := b.(string)
		return BoolConst(ok && x == y)
	case Struct:
		y, ok := b.(Struct)
		if !ok || len(x) != len(y) {
			return False
		}
		var cs []*Term
		for i := range x {
			cs = append(cs, in.deepEq(x[i], y[i]))
		}
		return And(cs...)
	case Array:
		y, ok := b.(Array)
		if !ok || len(x) != len(y) {
			return False
		}
		var cs []*Term
		for i := range x {
			cs = append(cs, in.deepEq(x[i], y[i]))
		}
		return And(cs...)
	case Slice:
		y, ok := b.(Slice)
		if !ok || len(x.V) != len(y.V) {
			return False
		}
		var cs []*Term
		for i := range x.V {
			cs = append(cs, in.deepEq(x.V[i], y.V[i]))
		}
		return And(cs...)
	case Time:
		y, ok := b.(Time)
		if !ok {
			return False
		}
		return Eq(x.T, y.T)
	case *Value:
		y, ok := b.(*Value)
		if !ok {
			return False
		}
		if x == nil || y == nil {
			return BoolConst(x == nil && y == nil)
		}
		return in.deepEq(*x, *y)
	case Iface:
		y, ok := b.(Iface)
		if !ok {
			return False
		}
		if x.T == nil || y.T == nil {
			return BoolConst(x.T == nil && y.T == nil)
		}
		return in.deepEq(x.V, y.V)
	case Blob:
		y, ok := b.(Blob)
		if !ok {
			return False
		}
		return in.deepEq(x.V, y.V)
	case Dec:
		y, ok := b.(Dec)
		if !ok || (x.T == nil) != (y.T == nil) {
			return False
		}
		if x.T == nil {
			return True
		}
		return Eq(x.T, y.T)
	case BigInt:
		y, ok := b.(BigInt)
		if !ok || (x.T == nil) != (y.T == nil) {
			return False
		}
		if x.T == nil {
			return True
		}
		return Eq(x.T, y.T)
	}
	in.unsupp("deepEq on %T", a)
	return nil
}

func identityKey(i int64) (ed25519.PrivateKey, []byte) {
	seed := sha256.Sum256([]byte{byte(i)})
	priv := ed25519.NewKeyFromSeed(seed[:])
	return priv, []byte(priv[32:])
}

func init() {
	reg("github.com/cometbft/cometbft/libs/protoio.MarshalDelimited", func(in *Interp, fn *ssa.Function, a []Value, pos token.Pos) Value {
		iv := a[0].(Iface)
		p, ok := iv.V.(*Value)
		if !ok || p == nil {
			in.unsupp("MarshalDelimited of %T", iv.V)
		}
		return tup(blobSlice(*p, "delimited:"+iv.T.String()), Iface{})
	})
	// vh.SignBytes(keyIdx, msg): signature of identity key keyIdx over msg
	reg("VH.SignBytes", func(in *Interp, fn *ssa.Function, a []Value, pos token.Pos) Value {
		i, ok := a[0].(*Term).ConstInt64()
		if !ok {
			in.unsupp("SignBytes with symbolic key identity")
		}
		_, pub := identityKey(i)
		msg := a[1].(Slice)
		out := make([]Value, 64)
		out[0] = SigTag{Key: pub, Msg: DeepCopy(msg)}
		for j := 1; j < 64; j++ {
			out[j] = Int64(0)
		}
		return Slice{out}
	})
	verify := func(in *Interp, fn *ssa.Function, a []Value, pos token.Pos) Value {
		pub, okp := bytesOf(a[0].(Slice).V)
		sig := a[2].(Slice)
		if len(sig.V) != 64 {
			return False
		}
		tag, ok := sig.V[0].(SigTag)
		if !ok || !okp {
			return False // bytes that were not produced by a modelled signer never verify
		}
		if string(tag.Key) != string(pub) {
			return False
		}
		return in.deepEq(tag.Msg, a[1])
	}
	reg("github.com/hdevalence/ed25519consensus.Verify", verify)
	// CometBFT's ed25519 public key (curve25519-voi verifier): same signature model
	reg("(github.com/cometbft/cometbft/crypto/ed25519.PubKey).VerifySignature", verify)
}
