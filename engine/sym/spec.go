package sym

import (
	"go/types"

	"golang.org/x/tools/go/ssa"
)

// ---- speculative if-conversion ("state merging")
//
// At a branch on a symbolic condition the interpreter first tries to execute
// both arms up to the branch's immediate post-dominator with a write log, and
// to merge the two resulting states into one with ite terms.  When an arm does
// something that cannot be merged (forks, panics, returns from only one arm,
// mutates maps or the KV world, produces structurally different values) the
// speculation is rolled back and the explorer forks as usual.

type specAbort struct{ why string }

type writeLog struct {
	old map[*Value]Value
}

type specOutcome struct {
	env      map[ssa.Value]Value
	visited  map[*ssa.BasicBlock]bool
	returned bool
	result   Value
	final    map[*Value]Value
	ovf      []ovfOb
	phis     map[*ssa.Phi]Value
	ndefers  int
}

// write performs a heap write, recording the previous value in every active log.
func (in *Interp) write(p *Value, v Value) {
	for _, l := range in.specLogs {
		if _, ok := l.old[p]; !ok {
			l.old[p] = *p
		}
	}
	*p = v
}

// storeTo assigns v to *p preserving aliasing of aggregate storage: structs
// and arrays are updated element-wise in place (as a Go assignment does).
func (in *Interp) storeTo(p *Value, v Value) {
	switch nv := v.(type) {
	case Struct:
		if cur, ok := (*p).(Struct); ok && len(cur) == len(nv) {
			for i := range cur {
				in.storeTo(&cur[i], nv[i])
			}
			return
		}
	case Array:
		if cur, ok := (*p).(Array); ok && len(cur) == len(nv) {
			for i := range cur {
				in.storeTo(&cur[i], nv[i])
			}
			return
		}
	}
	in.write(p, copyVal(v))
}

func (in *Interp) speculating() bool { return len(in.specLogs) > 0 }

// noSpec aborts an active speculation (used by operations that cannot be merged).
func (in *Interp) noSpec(why string) {
	if len(in.specLogs) > 0 {
		panic(&specAbort{why})
	}
}

type pdomInfo struct {
	ipdom map[*ssa.BasicBlock]*ssa.BasicBlock // nil => virtual exit
}

// postDoms computes immediate post-dominators (Cooper-Harvey-Kennedy on the
// reversed CFG with a virtual exit).
func (in *Interp) postDoms(fn *ssa.Function) *pdomInfo {
	if pi, ok := in.pdoms[fn]; ok {
		return pi
	}
	n := len(fn.Blocks)
	exit := n // virtual exit index
	succs := make([][]int, n+1)
	preds := make([][]int, n+1) // in reversed graph: preds_rev(x) = succs(x)
	for _, b := range fn.Blocks {
		if len(b.Succs) == 0 {
			succs[b.Index] = []int{exit}
		}
		for _, s := range b.Succs {
			succs[b.Index] = append(succs[b.Index], s.Index)
		}
	}
	for i, ss := range succs {
		for _, s := range ss {
			preds[s] = append(preds[s], i)
		}
	}
	// reverse post-order of reversed graph starting at exit
	visited := make([]bool, n+1)
	var order []int
	var dfs func(int)
	dfs = func(x int) {
		visited[x] = true
		for _, p := range preds[x] {
			if !visited[p] {
				dfs(p)
			}
		}
		order = append(order, x)
	}
	dfs(exit)
	rpoNum := make([]int, n+1)
	for i := range rpoNum {
		rpoNum[i] = -1
	}
	for i, x := range order {
		rpoNum[x] = len(order) - 1 - i
	}
	idom := make([]int, n+1)
	for i := range idom {
		idom[i] = -1
	}
	idom[exit] = exit
	intersect := func(a, b int) int {
		for a != b {
			for rpoNum[a] > rpoNum[b] {
				a = idom[a]
			}
			for rpoNum[b] > rpoNum[a] {
				b = idom[b]
			}
		}
		return a
	}
	changed := true
	for changed {
		changed = false
		for i := len(order) - 1; i >= 0; i-- {
			x := order[i]
			if x == exit {
				continue
			}
			newIdom := -1
			for _, s := range succs[x] { // predecessors in reversed graph
				if idom[s] == -1 {
					continue
				}
				if newIdom == -1 {
					newIdom = s
				} else {
					newIdom = intersect(s, newIdom)
				}
			}
			if newIdom != -1 && idom[x] != newIdom {
				idom[x] = newIdom
				changed = true
			}
		}
	}
	pi := &pdomInfo{ipdom: map[*ssa.BasicBlock]*ssa.BasicBlock{}}
	for _, b := range fn.Blocks {
		d := idom[b.Index]
		if d >= 0 && d < n {
			pi.ipdom[b] = fn.Blocks[d]
		} else {
			pi.ipdom[b] = nil
		}
	}
	if in.pdoms == nil {
		in.pdoms = map[*ssa.Function]*pdomInfo{}
	}
	in.pdoms[fn] = pi
	return pi
}

const maxSpecDepth = 8
const maxSpecSteps = 60000

func (fr *frame) speculate(from, succ, join *ssa.BasicBlock, guard *Term) (out *specOutcome) {
	in := fr.in
	log := &writeLog{old: map[*Value]Value{}}
	in.specLogs = append(in.specLogs, log)
	in.specGuards = append(in.specGuards, guard)
	in.E.NoFork++
	ovfMark := len(in.E.ovf)
	savedBlock, savedPrev, savedDefers := fr.block, fr.prev, len(fr.defers)
	savedOverride := fr.phiOverride
	fr.phiOverride = nil
	envSnap := fr.env
	armEnv := make(map[ssa.Value]Value, len(envSnap)+16)
	for k, v := range envSnap {
		armEnv[k] = v
	}
	fr.env = armEnv
	savedVisit := fr.visited
	fr.visited = map[*ssa.BasicBlock]bool{}
	savedDepth, savedCur := in.depth, len(in.curFrames)
	stepLimit := in.steps + maxSpecSteps
	savedLimit := in.specStepLimit
	if savedLimit == 0 || stepLimit < savedLimit {
		in.specStepLimit = stepLimit
	}
	func() {
		defer func() {
			if r := recover(); r != nil {
				switch x := r.(type) {
				case *specAbort:
					out = nil
					in.SpecAborts[x.why]++
				case *GoPanic:
					out = nil
					in.SpecAborts["panic in arm"]++
				case *pathEnd:
					if x.kind == "unsupported" || x.kind == "infeasible" {
						out = nil
						in.SpecAborts["pathEnd "+x.kind]++
						return
					}
					panic(r)
				default:
					panic(r)
				}
			}
		}()
		fr.prev, fr.block = from, succ
		returned := fr.runUntil(join)
		o := &specOutcome{env: armEnv, visited: fr.visited, returned: returned, result: fr.result, final: map[*Value]Value{}, phis: map[*ssa.Phi]Value{}, ndefers: len(fr.defers)}
		for p := range log.old {
			o.final[p] = copyVal(*p)
		}
		o.ovf = append(o.ovf, in.E.ovf[ovfMark:]...)
		if !returned && join != nil {
			for _, instr := range join.Instrs {
				phi, ok := instr.(*ssa.Phi)
				if !ok {
					break
				}
				if v, ok := fr.phiOverride[phi]; ok && fr.prev == nil {
					// an inner merge landed on the same join block
					o.phis[phi] = v
					continue
				}
				for i, pred := range join.Preds {
					if pred == fr.prev {
						o.phis[phi] = fr.get(phi.Edges[i])
						break
					}
				}
			}
		}
		out = o
	}()
	// roll back
	for p, old := range log.old {
		*p = old
	}
	in.E.ovf = in.E.ovf[:ovfMark]
	in.specLogs = in.specLogs[:len(in.specLogs)-1]
	in.specGuards = in.specGuards[:len(in.specGuards)-1]
	in.E.NoFork--
	in.specStepLimit = savedLimit
	in.depth, in.curFrames = savedDepth, in.curFrames[:savedCur]
	fr.block, fr.prev, fr.result = savedBlock, savedPrev, nil
	fr.phiOverride = savedOverride
	fr.env = envSnap
	if savedVisit != nil {
		for b := range fr.visited {
			savedVisit[b] = true
		}
	}
	fr.visited = savedVisit
	if out != nil && out.ndefers != savedDefers {
		out = nil
		in.SpecAborts["defer in arm"]++
	}
	fr.defers = fr.defers[:savedDefers]
	return out
}

// tryMerge attempts if-conversion of the branch; returns (handled, control).
func (fr *frame) tryMerge(instr *ssa.If, c *Term) (bool, int) {
	in := fr.in
	if in.NoMerge || len(in.specLogs) >= maxSpecDepth {
		return false, 0
	}
	b := instr.Block()
	join := in.postDoms(fr.fn).ipdom[b]
	if join == nil && len(fr.defers) > 0 {
		return false, 0
	}
	a := fr.speculate(b, b.Succs[0], join, c)
	if a == nil {
		return false, 0
	}
	bb := fr.speculate(b, b.Succs[1], join, Not(c))
	if bb == nil {
		return false, 0
	}
	if a.returned != bb.returned {
		in.SpecAborts["one arm returns"]++
		return false, 0
	}
	merged := map[*Value]Value{}
	for p, va := range a.final {
		vb, ok := bb.final[p]
		if !ok {
			vb = *p
		}
		m, ok := mergeVal(c, va, vb)
		if !ok {
			in.SpecAborts["unmergeable heap value"]++
			return false, 0
		}
		merged[p] = m
	}
	for p, vb := range bb.final {
		if _, done := merged[p]; done {
			continue
		}
		m, ok := mergeVal(c, *p, vb)
		if !ok {
			in.SpecAborts["unmergeable heap value"]++
			return false, 0
		}
		merged[p] = m
	}
	var res Value
	phis := map[*ssa.Phi]Value{}
	if a.returned {
		m, ok := mergeVal(c, a.result, bb.result)
		if !ok {
			in.SpecAborts["unmergeable result"]++
			return false, 0
		}
		res = m
	} else {
		if len(a.phis) != len(bb.phis) {
			in.SpecAborts["phi mismatch"]++
			return false, 0
		}
		for phi, va := range a.phis {
			vb, ok := bb.phis[phi]
			if !ok {
				in.SpecAborts["phi mismatch"]++
				return false, 0
			}
			m, ok := mergeVal(c, va, vb)
			if !ok {
				in.SpecAborts["unmergeable phi"]++
				return false, 0
			}
			phis[phi] = m
		}
	}
	// SSA registers (re)defined inside the region and still used outside it
	envUpd := map[ssa.Value]Value{}
	if !a.returned {
		inRegion := func(b *ssa.BasicBlock) bool { return a.visited[b] || bb.visited[b] }
		consider := func(v ssa.Value) bool {
			if _, done := envUpd[v]; done {
				return true
			}
			va, inA := a.env[v]
			vb, inB := bb.env[v]
			old, had := fr.env[v]
			if !inA {
				va = old
			}
			if !inB {
				vb = old
			}
			if had && sameRef(va, old) && sameRef(vb, old) {
				return true
			}
			// is it used outside the region?
			usedOutside := false
			if refs := v.Referrers(); refs != nil {
				for _, r := range *refs {
					if !inRegion(r.Block()) {
						usedOutside = true
						break
					}
				}
			}
			if !usedOutside {
				return true
			}
			if (!inA && !had) || (!inB && !had) {
				// defined on one arm only but used later: only legal through a phi
				return true
			}
			m, ok := mergeVal(c, va, vb)
			if !ok {
				return false
			}
			envUpd[v] = m
			return true
		}
		for v := range a.env {
			if !consider(v) {
				in.SpecAborts["unmergeable live register"]++
				return false, 0
			}
		}
		for v := range bb.env {
			if !consider(v) {
				in.SpecAborts["unmergeable live register"]++
				return false, 0
			}
		}
	}
	// commit
	for v, m := range envUpd {
		fr.env[v] = m
	}
	for p, v := range merged {
		in.storeTo(p, v)
	}
	in.E.ovf = append(in.E.ovf, a.ovf...)
	in.E.ovf = append(in.E.ovf, bb.ovf...)
	in.Merges++
	if a.returned {
		fr.result = res
		fr.block = nil
		return true, kReturn
	}
	fr.phiOverride = phis
	fr.prev, fr.block = nil, join
	return true, kJump
}

// sameRef: cheap identity test used to skip registers untouched by an arm.
func sameRef(a, b Value) bool {
	switch x := a.(type) {
	case *Term:
		y, ok := b.(*Term)
		return ok && x == y
	case string:
		y, ok := b.(string)
		return ok && x == y
	case *Value:
		y, ok := b.(*Value)
		return ok && x == y
	case *Map:
		y, ok := b.(*Map)
		return ok && x == y
	case *Opaque:
		y, ok := b.(*Opaque)
		return ok && x == y
	case Slice:
		y, ok := b.(Slice)
		return ok && sameSliceHeader(x, y)
	case nil:
		return b == nil
	}
	return false
}

func sameSliceHeader(a, b Slice) bool {
	if a.V == nil || b.V == nil {
		return a.V == nil && b.V == nil
	}
	if len(a.V) != len(b.V) || cap(a.V) != cap(b.V) {
		return false
	}
	if cap(a.V) == 0 {
		return true
	}
	return &a.V[:cap(a.V)][0] == &b.V[:cap(b.V)][0]
}

// mergeVal builds ite(c, a, b) for values of identical shape.
func mergeVal(c *Term, a, b Value) (Value, bool) {
	switch x := a.(type) {
	case nil:
		return nil, b == nil
	case *Term:
		y, ok := b.(*Term)
		if !ok || x.Bool != y.Bool {
			return nil, false
		}
		return Ite(c, x, y), true
	case string:
		y, ok := b.(string)
		return x, ok && x == y
	case *SymStr:
		y, ok := b.(*SymStr)
		return x, ok && x == y
	case Struct:
		y, ok := b.(Struct)
		if !ok || len(x) != len(y) {
			return nil, false
		}
		out := make(Struct, len(x))
		for i := range x {
			m, ok := mergeVal(c, x[i], y[i])
			if !ok {
				return nil, false
			}
			out[i] = m
		}
		return out, true
	case Array:
		y, ok := b.(Array)
		if !ok || len(x) != len(y) {
			return nil, false
		}
		out := make(Array, len(x))
		for i := range x {
			m, ok := mergeVal(c, x[i], y[i])
			if !ok {
				return nil, false
			}
			out[i] = m
		}
		return out, true
	case Tuple:
		y, ok := b.(Tuple)
		if !ok || len(x) != len(y) {
			return nil, false
		}
		out := make(Tuple, len(x))
		for i := range x {
			m, ok := mergeVal(c, x[i], y[i])
			if !ok {
				return nil, false
			}
			out[i] = m
		}
		return out, true
	case BigInt:
		y, ok := b.(BigInt)
		if !ok || (x.T == nil) != (y.T == nil) {
			return nil, false
		}
		if x.T == nil {
			return x, true
		}
		return BigInt{Ite(c, x.T, y.T)}, true
	case Dec:
		y, ok := b.(Dec)
		if !ok || (x.T == nil) != (y.T == nil) {
			return nil, false
		}
		if x.T == nil {
			return x, true
		}
		return Dec{Ite(c, x.T, y.T)}, true
	case Time:
		y, ok := b.(Time)
		if !ok {
			return nil, false
		}
		return Time{Ite(c, x.T, y.T)}, true
	case Iface:
		y, ok := b.(Iface)
		if !ok {
			return nil, false
		}
		if x.T == nil || y.T == nil {
			return x, x.T == nil && y.T == nil && x.V == nil && y.V == nil
		}
		if !types.Identical(x.T, y.T) {
			return nil, false
		}
		m, ok := mergeVal(c, x.V, y.V)
		if !ok {
			return nil, false
		}
		return Iface{x.T, m}, true
	case Slice:
		y, ok := b.(Slice)
		if !ok {
			return nil, false
		}
		return x, sameSliceHeader(x, y)
	case *Value:
		y, ok := b.(*Value)
		return x, ok && x == y
	case *Map:
		y, ok := b.(*Map)
		return x, ok && x == y
	case *Opaque:
		y, ok := b.(*Opaque)
		return x, ok && x == y
	case *Closure:
		y, ok := b.(*Closure)
		return x, ok && x == y
	case *ssa.Function:
		y, ok := b.(*ssa.Function)
		return x, ok && x == y
	case *ssa.Builtin:
		y, ok := b.(*ssa.Builtin)
		return x, ok && x == y
	case *BoundIntrinsic:
		y, ok := b.(*BoundIntrinsic)
		return x, ok && x == y
	case *ErrVal:
		y, ok := b.(*ErrVal)
		return x, ok && x == y
	case TimeByte:
		y, ok := b.(TimeByte)
		return x, ok && x == y
	case BEByte:
		y, ok := b.(BEByte)
		return x, ok && x == y
	case Blob:
		return nil, false
	case SigTag:
		y, ok := b.(SigTag)
		return x, ok && string(x.Key) == string(y.Key) && false
	case Junk:
		_, ok := b.(Junk)
		return x, ok
	}
	return nil, false
}
