package sym

import (
	"fmt"
	"os"
	"go/constant"
	"go/token"
	"go/types"
	"math/big"
	"strings"

	"golang.org/x/tools/go/ssa"
)

// Tainted marks a package-level variable whose initialiser could not be
// modelled; any use outside package initialisation is reported as unsupported.
type Tainted struct{ Why string }

type deferred struct {
	fn   Value
	args []Value
	pos  token.Pos
}

type frame struct {
	in        *Interp
	caller    *frame
	fn        *ssa.Function
	block     *ssa.BasicBlock
	prev      *ssa.BasicBlock
	env       map[ssa.Value]Value
	defers    []deferred
	result    Value
	panicking *GoPanic
	recovered bool
	phiOverride map[*ssa.Phi]Value
	visited     map[*ssa.BasicBlock]bool
}

// Interp holds per-program state; per-path state is reset by ResetPath.
type Interp struct {
	Prog    *ssa.Program
	E       *Explorer
	globals map[*ssa.Global]*Value
	pkgInit map[*ssa.Package]bool
	lenient int // >0 while running package initialisers
	steps   int
	depth   int

	MaxSteps       int
	MapOrderNondet bool
	Entered        map[string]int // functions of interest entered (for evidence)
	RootPrefix     string
	World          *World
	Trace          bool
	Bounds         map[string]int64
	Concrete       map[string]string // pinned input values (concrete differential mode)
	identCache     map[string]Value
	mset           map[string]*ssa.Function
	pathObjs       int
	curFrames      []*frame
	dbgStack       []*ssa.Function
	lcVerdict      []*Term
	initPkg        *ssa.Package
	initCache      map[*ssa.Package]map[*ssa.Global]Value
	specLogs       []*writeLog
	specGuards     []*Term
	specStepLimit  int
	pdoms          map[*ssa.Function]*pdomInfo
	NoMerge        bool
	Merges         int
	SpecAborts     map[string]int
}

func NewInterp(prog *ssa.Program, e *Explorer) *Interp {
	in := newInterp(prog, e)
	e.ArmGuards = func() []*Term { return append([]*Term{}, in.specGuards...) }
	e.Guard = func(c *Term) *Term {
		for i := len(in.specGuards) - 1; i >= 0; i-- {
			c = Implies(in.specGuards[i], c)
		}
		return c
	}
	return in
}

func newInterp(prog *ssa.Program, e *Explorer) *Interp {
	return &Interp{Prog: prog, E: e, globals: map[*ssa.Global]*Value{}, pkgInit: map[*ssa.Package]bool{},
		MaxSteps: 3000000, Entered: map[string]int{}, RootPrefix: "github.com/cosmos/interchain-security/",
		Bounds: map[string]int64{}, identCache: map[string]Value{}, SpecAborts: map[string]int{}}
}

// ResetPath clears all per-path state (heap is garbage; globals re-initialised).
func (in *Interp) ResetPath() {
	in.globals = map[*ssa.Global]*Value{}
	in.pkgInit = map[*ssa.Package]bool{}
	in.steps = 0
	in.depth = 0
	in.specLogs, in.specGuards, in.specStepLimit = nil, nil, 0
	in.curFrames = nil
	in.dbgStack = nil
	in.lcVerdict = nil
	in.E.NoFork = 0
	in.World = NewWorld()
}

func (in *Interp) posOf(p token.Pos) string {
	if !p.IsValid() {
		return "?"
	}
	pp := in.Prog.Fset.Position(p)
	f := pp.Filename
	if i := strings.Index(f, "/repo/"); i >= 0 {
		f = f[i+6:]
	} else if i := strings.Index(f, "/pkg/mod/"); i >= 0 {
		f = f[i+9:]
	}
	return fmt.Sprintf("%s:%d", f, pp.Line)
}

func (in *Interp) goPanic(pos token.Pos, msg string, val Value) {
	panic(&GoPanic{Val: val, Pos: in.posOf(pos), Msg: msg})
}

var unsuppSeen = map[string]bool{}

func (in *Interp) unsupp(format string, args ...interface{}) {
	if os.Getenv("GOSYM_UNSUPP_STACK") != "" {
		msg := fmt.Sprintf(format, args...)
		if !unsuppSeen[msg] {
			unsuppSeen[msg] = true
			fmt.Fprintf(os.Stderr, "UNSUPP %s\n", msg)
			for i, d := len(in.dbgStack)-1, 0; i >= 0 && d < 14; i, d = i-1, d+1 {
				fmt.Fprintf(os.Stderr, "    at %s\n", in.dbgStack[i].String())
			}
		}
	}
	in.E.Unsupp(format, args...)
}

// ---------------------------------------------------------------- globals

func (in *Interp) global(g *ssa.Global) *Value {
	if p, ok := in.globals[g]; ok {
		return p
	}
	if g.Pkg != nil && !in.pkgInit[g.Pkg] {
		in.pkgInit[g.Pkg] = true
		in.initPackage(g.Pkg)
		if p, ok := in.globals[g]; ok {
			return p
		}
	}
	return in.newGlobal(g)
}

func (in *Interp) newGlobal(g *ssa.Global) *Value {
	elem := g.Type().(*types.Pointer).Elem()
	p := new(Value)
	*p = zero(elem)
	in.globals[g] = p
	if v, ok := in.globalIntrinsic(g); ok {
		*p = v
	}
	return p
}

// initPackage runs (once per program, cached across paths) the variable
// initialisers of a package.  Variables whose initialiser cannot be modelled
// are left Tainted.
func (in *Interp) initPackage(pkg *ssa.Package) {
	if cached, ok := in.initCache[pkg]; ok {
		seen := map[*Value]*Value{}
		for g, v := range cached {
			p := new(Value)
			*p = deepCopy(v, seen)
			in.globals[g] = p
		}
		return
	}
	var members []*ssa.Global
	for _, m := range pkg.Members {
		if g, ok := m.(*ssa.Global); ok {
			members = append(members, g)
			in.newGlobal(g)
		}
	}
	initFn := pkg.Func("init")
	if initFn != nil && initFn.Blocks != nil {
		// pre-taint every variable that has an initialiser
		for _, b := range initFn.Blocks {
			for _, instr := range b.Instrs {
				if st, ok := instr.(*ssa.Store); ok {
					if g, ok := st.Addr.(*ssa.Global); ok && g.Pkg == pkg && g.Name() != "init$guard" {
						if _, isIntr := in.globalIntrinsic(g); !isIntr {
							*in.globals[g] = Tainted{Why: pkg.Pkg.Path() + "." + g.Name()}
						}
					}
				}
			}
		}
		in.runPkgInit(pkg)
	}
	// registered-error / error-typed variables that stayed unmodelled become distinct sentinels
	for _, g := range members {
		p := in.globals[g]
		elem := g.Type().(*types.Pointer).Elem()
		_, tainted := (*p).(Tainted)
		if elem.String() == "*cosmossdk.io/errors.Error" {
			if pv, ok := (*p).(*Value); (ok && pv == nil) || tainted {
				*p = in.sentinelError(pkg.Pkg.Path()+"."+g.Name(), g.Name()).(Iface).V
			}
		} else if elem.String() == "error" {
			iv, ok := (*p).(Iface)
			if (ok && iv.T == nil && iv.V == nil) || tainted {
				*p = in.sentinelError(pkg.Pkg.Path()+"."+g.Name(), g.Name())
			}
		}
		if v, ok := in.globalIntrinsic(g); ok {
			*p = v
		}
	}
	snap := map[*ssa.Global]Value{}
	seen := map[*Value]*Value{}
	for _, g := range members {
		snap[g] = deepCopy(*in.globals[g], seen)
	}
	if in.initCache == nil {
		in.initCache = map[*ssa.Package]map[*ssa.Global]Value{}
	}
	in.initCache[pkg] = snap
}

var initAllow = map[string]bool{}

func (in *Interp) runPkgInit(pkg *ssa.Package) {
	initFn := pkg.Func("init")
	if initFn == nil || initFn.Blocks == nil {
		return
	}
	in.lenient++
	savedInit := in.initPkg
	in.initPkg = pkg
	// package initialisation is path independent: it must not be recorded in
	// (and rolled back with) the write log of a speculated arm
	savedLogs, savedGuards, savedNoFork, savedLimit := in.specLogs, in.specGuards, in.E.NoFork, in.specStepLimit
	in.specLogs, in.specGuards, in.E.NoFork, in.specStepLimit = nil, nil, 0, 0
	defer func() {
		in.lenient--
		in.initPkg = savedInit
		in.specLogs, in.specGuards, in.E.NoFork, in.specStepLimit = savedLogs, savedGuards, savedNoFork, savedLimit
	}()
	defer func() {
		if r := recover(); r != nil {
			switch x := r.(type) {
			case *GoPanic:
				// swallow: leave remaining globals zero
				if os.Getenv("GOSYM_DEBUG_INIT") != "" {
					fmt.Fprintf(os.Stderr, "init of %s: panic %s at %s\n", pkg.Pkg.Path(), x.Msg, x.Pos)
				}
			case *pathEnd:
				if os.Getenv("GOSYM_DEBUG_INIT") != "" {
					fmt.Fprintf(os.Stderr, "init of %s: %s %s\n", pkg.Pkg.Path(), x.kind, x.reason)
				}
				if x.kind != "unsupported" {
					panic(r)
				}
			default:
				panic(r)
			}
		}
	}()
	in.callFunction(initFn, nil, nil, token.NoPos)
}

// ---------------------------------------------------------------- values

func (in *Interp) constValue(c *ssa.Const) Value {
	if c.Value == nil {
		return zero(c.Type())
	}
	t := c.Type()
	if tp, ok := t.(*types.TypeParam); ok {
		_ = tp
		in.unsupp("const of type param")
	}
	if b, ok := t.Underlying().(*types.Basic); ok {
		switch {
		case b.Info()&types.IsBoolean != 0:
			return BoolConst(constant.BoolVal(c.Value))
		case b.Info()&types.IsString != 0:
			if c.Value.Kind() == constant.String {
				return constant.StringVal(c.Value)
			}
			return ""
		case b.Info()&types.IsInteger != 0:
			v := constant.ToInt(c.Value)
			bi, ok := constant.Val(v).(*big.Int)
			if !ok {
				i64, _ := constant.Int64Val(v)
				bi = big.NewInt(i64)
			}
			return IntConst(bi)
		default:
			return Junk{"float const"}
		}
	}
	in.unsupp("const of type %v", t)
	return nil
}

func (fr *frame) get(v ssa.Value) Value {
	switch v := v.(type) {
	case nil:
		return nil
	case *ssa.Function, *ssa.Builtin:
		return v
	case *ssa.Const:
		return fr.in.constValue(v)
	case *ssa.Global:
		return fr.in.global(v)
	}
	if r, ok := fr.env[v]; ok {
		if t, bad := r.(Tainted); bad && fr.in.lenient == 0 {
			fr.in.unsupp("use of a package-level variable whose initialiser is not modelled (%s)", t.Why)
		}
		return r
	}
	panic(fmt.Sprintf("get: no value for %T %v %s in %s", v, v, v.Name(), fr.fn))
}

func load(p *Value) Value { return copyVal(*p) }

// resolve forks on the nil-ness of a store value with symbolic presence.
func (in *Interp) resolve(v Value) Value {
	if m, ok := v.(MaybeNil); ok {
		if in.E.Branch(m.Nil, "store-presence") {
			return Slice{}
		}
		return m.S
	}
	return v
}

func (fr *frame) getR(v ssa.Value) Value { return fr.in.resolve(fr.get(v)) }

func store(p *Value, v Value) { *p = copyVal(v) }

// ---------------------------------------------------------------- calls

func (in *Interp) callValue(fnv Value, args []Value, pos token.Pos) Value {
	switch f := fnv.(type) {
	case *ssa.Function:
		if f == nil {
			in.goPanic(pos, "call of nil function", nil)
		}
		return in.callFunction(f, args, nil, pos)
	case *Closure:
		return in.callFunction(f.Fn, args, f.Env, pos)
	case *ssa.Builtin:
		return in.callBuiltin(f, args, pos)
	case *BoundIntrinsic:
		for i := range args {
			args[i] = in.resolve(args[i])
		}
		return f.Fn(in, append([]Value{f.Recv}, args...), pos)
	}
	in.unsupp("call of %T", fnv)
	return nil
}

type BoundIntrinsic struct {
	Recv Value
	Fn   func(in *Interp, args []Value, pos token.Pos) Value
	Name string
}

func isPbGo(in *Interp, fn *ssa.Function) bool {
	if !fn.Pos().IsValid() {
		// synthetic wrappers have no position; look at the syntax-less object
		return false
	}
	f := in.Prog.Fset.Position(fn.Pos()).Filename
	return strings.HasSuffix(f, ".pb.go")
}

func (in *Interp) callFunction(fn *ssa.Function, args []Value, env []Value, pos token.Pos) Value {
	if in.lenient > 0 && fn.Pkg != nil && (fn.Name() == "init" || strings.HasPrefix(fn.Name(), "init#")) {
		if fn.Pkg != in.initPkg || strings.HasPrefix(fn.Name(), "init#") {
			return nil // imported packages' initialisers and user init() functions are not run
		}
	}
	name := fn.String()
	if intr, ok := intrinsics[name]; ok {
		for i := range args {
			args[i] = in.resolve(args[i])
		}
		return intr(in, fn, args, pos)
	}
	if fn.Pkg != nil && strings.HasSuffix(fn.Pkg.Pkg.Path(), "/vh") {
		if intr, ok := intrinsics["VH."+fn.Name()]; ok {
			return intr(in, fn, args, pos)
		}
	}
	if fn.Signature.Recv() != nil || (len(fn.Params) > 0 && fn.Synthetic == "") {
		if r, ok := in.protoIntercept(fn, args, pos); ok {
			return r
		}
	}
	if v, ok := in.packagePolicy(fn, args, pos); ok {
		return v
	}
	if fn.Blocks == nil {
		if in.lenient > 0 {
			return Tainted{Why: "external function " + name}
		}
		in.unsupp("external function without body: %s", name)
	}
	if in.depth > 400 {
		in.unsupp("call depth exceeded at %s", name)
	}
	if fn.Pkg != nil && strings.HasPrefix(fn.Pkg.Pkg.Path(), in.RootPrefix) && !strings.Contains(name, "Verif") && !strings.Contains(fn.Pkg.Pkg.Path(), "/vh") {
		if fn.Synthetic == "" && !strings.Contains(in.Prog.Fset.Position(fn.Pos()).Filename, "zz_verif") {
			in.Entered[name]++
		}
	}
	in.depth++
	defer func() { in.depth-- }()
	fr := &frame{in: in, fn: fn, env: make(map[ssa.Value]Value, 16)}
	in.dbgStack = append(in.dbgStack, fn)
	defer func() { in.dbgStack = in.dbgStack[:len(in.dbgStack)-1] }()
	for i, p := range fn.Params {
		if i < len(args) {
			fr.env[p] = args[i]
		} else {
			fr.env[p] = zero(p.Type())
		}
	}
	for i, fv := range fn.FreeVars {
		fr.env[fv] = env[i]
	}
	fr.run()
	return fr.result
}

func zeroResult(sig *types.Signature) Value {
	r := sig.Results()
	switch r.Len() {
	case 0:
		return nil
	case 1:
		return zero(r.At(0).Type())
	}
	t := make(Tuple, r.Len())
	for i := range t {
		t[i] = zero(r.At(i).Type())
	}
	return t
}

func (fr *frame) run() {
	fr.block = fr.fn.Blocks[0]
	defer func() {
		if fr.block == nil {
			return // normal return
		}
		r := recover()
		if r == nil {
			return
		}
		gp, ok := r.(*GoPanic)
		if !ok {
			panic(r) // engine-level signal: propagate untouched
		}
		fr.panicking = gp
		fr.recovered = false
		fr.runDefers()
		if fr.recovered {
			// function returns normally with named results (read by Recover block)
			if fr.fn.Recover != nil {
				fr.block = fr.fn.Recover
				fr.prev = nil
				fr.panicking = nil
				fr.runBlocks()
				return
			}
			fr.result = zeroResult(fr.fn.Signature)
			return
		}
		panic(fr.panicking)
	}()
	fr.runBlocks()
}

func (fr *frame) runBlocks() { fr.runUntil(nil) }

// runUntil executes blocks until control reaches stop (not executed) or the
// function returns (result true).
func (fr *frame) runUntil(stop *ssa.BasicBlock) bool {
	in := fr.in
	for fr.block != nil {
		if fr.block == stop {
			return false
		}
		b := fr.block
		if fr.visited != nil {
			fr.visited[b] = true
		}
		jumped := false
		for _, instr := range b.Instrs {
			in.steps++
			if in.steps > in.MaxSteps {
				panic(&pathEnd{kind: "unsupported", reason: "step budget exceeded (loop bound?)"})
			}
			if in.specStepLimit > 0 && in.steps > in.specStepLimit && len(in.specLogs) > 0 {
				panic(&specAbort{"arm too long"})
			}
			switch fr.visit(instr) {
			case kReturn:
				fr.block = nil
				return true
			case kJump:
				jumped = true
			}
			if jumped {
				break
			}
		}
		if !jumped {
			panic("block fell through: " + fr.fn.String())
		}
	}
	return true
}

func (fr *frame) runDefers() {
	for len(fr.defers) > 0 {
		d := fr.defers[len(fr.defers)-1]
		fr.defers = fr.defers[:len(fr.defers)-1]
		fr.runDefer(d)
	}
}

func (fr *frame) runDefer(d deferred) {
	in := fr.in
	// a deferred call may itself panic, replacing the current panic
	defer func() {
		if r := recover(); r != nil {
			if gp, ok := r.(*GoPanic); ok {
				fr.panicking = gp
				fr.recovered = false
				return
			}
			panic(r)
		}
	}()
	in.curFrames = append(in.curFrames, fr)
	defer func() { in.curFrames = in.curFrames[:len(in.curFrames)-1] }()
	in.callValue(d.fn, d.args, d.pos)
}

const (
	kNext = iota
	kReturn
	kJump
)

func (fr *frame) visit(instr ssa.Instruction) int {
	in := fr.in
	if in.lenient > 0 {
		if done, ctl := fr.taintStep(instr); done {
			return ctl
		}
	}
	switch instr := instr.(type) {
	case *ssa.DebugRef:
	case *ssa.UnOp:
		fr.env[instr] = in.unop(instr, fr.get(instr.X))
	case *ssa.BinOp:
		fr.env[instr] = in.binop(instr.Op, instr.X.Type(), fr.get(instr.X), fr.get(instr.Y), instr.Pos(), instr.Type())
	case *ssa.Call:
		fn, args := fr.prepareCall(&instr.Call)
		if in.lenient > 0 && fr.fn.Name() == "init" {
			// package initialiser: a failing initialiser expression leaves its
			// variable zero instead of aborting the remaining ones
			fr.env[instr] = in.lenientCall(fn, args, instr)
			break
		}
		fr.env[instr] = in.callValue(fn, args, instr.Pos())
	case *ssa.ChangeInterface:
		fr.env[instr] = fr.get(instr.X)
	case *ssa.ChangeType:
		fr.env[instr] = fr.get(instr.X)
	case *ssa.Convert:
		fr.env[instr] = in.conv(instr.Type(), instr.X.Type(), fr.getR(instr.X), instr.Pos())
	case *ssa.MultiConvert:
		fr.env[instr] = in.conv(instr.Type(), instr.X.Type(), fr.get(instr.X), instr.Pos())
	case *ssa.SliceToArrayPointer:
		x := fr.getR(instr.X).(Slice)
		n := int(instr.Type().(*types.Pointer).Elem().Underlying().(*types.Array).Len())
		if len(x.V) < n {
			in.goPanic(instr.Pos(), "slice to array pointer: length too short", nil)
		}
		arr := Array(x.V[:n:n]) // shares storage
		p := new(Value)
		*p = arr
		fr.env[instr] = p
	case *ssa.MakeInterface:
		fr.env[instr] = Iface{T: instr.X.Type(), V: fr.get(instr.X)}
	case *ssa.Extract:
		fr.env[instr] = fr.get(instr.Tuple).(Tuple)[instr.Index]
	case *ssa.Slice:
		fr.env[instr] = in.sliceOp(instr, fr.getR(instr.X), fr.get(instr.Low), fr.get(instr.High), fr.get(instr.Max))
	case *ssa.Return:
		switch len(instr.Results) {
		case 0:
		case 1:
			fr.result = fr.get(instr.Results[0])
		default:
			res := make(Tuple, len(instr.Results))
			for i, r := range instr.Results {
				res[i] = copyVal(fr.get(r))
			}
			fr.result = res
		}
		return kReturn
	case *ssa.RunDefers:
		fr.runDefers()
		if fr.panicking != nil {
			if !fr.recovered {
				panic(fr.panicking)
			}
			fr.panicking = nil
		}
	case *ssa.Panic:
		v := fr.get(instr.X)
		in.goPanic(instr.Pos(), in.describe(v), v)
	case *ssa.Send, *ssa.Go, *ssa.Select:
		in.unsupp("concurrency instruction %T at %s", instr, in.posOf(instr.Pos()))
	case *ssa.Store:
		p := fr.get(instr.Addr).(*Value)
		if p == nil {
			in.goPanic(instr.Pos(), "nil pointer dereference (store)", nil)
		}
		in.storeTo(p, fr.get(instr.Val))
	case *ssa.If:
		c := fr.get(instr.Cond)
		ct, ok := c.(*Term)
		if !ok {
			in.unsupp("branch on unmodelled value %T at %s", c, in.posOf(instr.Pos()))
		}
		if ct.Op != "bool" {
			if ok, ctl := fr.tryMerge(instr, ct); ok {
				return ctl
			}
			in.noSpec("unmergeable nested branch")
		}
		succ := 1
		if in.E.Branch(ct, "if@"+in.posOf(instr.Cond.Pos())) {
			succ = 0
		}
		fr.phiOverride = nil
		fr.prev, fr.block = fr.block, fr.block.Succs[succ]
		return kJump
	case *ssa.Jump:
		fr.phiOverride = nil
		fr.prev, fr.block = fr.block, fr.block.Succs[0]
		return kJump
	case *ssa.Defer:
		fn, args := fr.prepareCall(&instr.Call)
		fr.defers = append(fr.defers, deferred{fn, args, instr.Pos()})
	case *ssa.FieldAddr:
		p := fr.get(instr.X).(*Value)
		if p == nil {
			in.goPanic(instr.Pos(), "nil pointer dereference (field "+fieldName(instr.X.Type(), instr.Field)+")", nil)
		}
		s, ok := (*p).(Struct)
		if !ok {
			in.unsupp("field access on summarised value %T (%v) at %s", *p, instr.X.Type(), in.posOf(instr.Pos()))
		}
		fr.env[instr] = &s[instr.Field]
	case *ssa.Field:
		x := fr.get(instr.X)
		s, ok := x.(Struct)
		if !ok {
			in.unsupp("field read on summarised value %T (%v) at %s", x, instr.X.Type(), in.posOf(instr.Pos()))
		}
		fr.env[instr] = copyVal(s[instr.Field])
	case *ssa.IndexAddr:
		x := fr.getR(instr.X)
		idx := fr.get(instr.Index).(*Term)
		var elems []Value
		switch x := x.(type) {
		case Slice:
			elems = x.V
		case *Value:
			if x == nil {
				in.goPanic(instr.Pos(), "nil pointer dereference (array index)", nil)
			}
			elems = (*x).(Array)
		default:
			in.unsupp("IndexAddr on %T", x)
		}
		i := in.concreteIndex(idx, len(elems), instr.Pos())
		fr.env[instr] = &elems[i]
	case *ssa.Index:
		x := fr.get(instr.X)
		idx := fr.get(instr.Index).(*Term)
		switch x := x.(type) {
		case Array:
			i := in.concreteIndex(idx, len(x), instr.Pos())
			fr.env[instr] = copyVal(x[i])
		case string:
			i := in.concreteIndex(idx, len(x), instr.Pos())
			fr.env[instr] = Int64(int64(x[i]))
		default:
			in.unsupp("Index on %T", x)
		}
	case *ssa.Lookup:
		fr.env[instr] = in.lookup(instr, fr.get(instr.X), fr.get(instr.Index))
	case *ssa.MapUpdate:
		m, _ := fr.get(instr.Map).(*Map)
		if m == nil {
			in.goPanic(instr.Pos(), "assignment to entry in nil map", nil)
		}
		in.noSpec("map update")
		k := fr.get(instr.Key)
		if !m.Set(copyVal(k), copyVal(fr.get(instr.Value))) {
			in.unsupp("map update with symbolic key at %s", in.posOf(instr.Pos()))
		}
	case *ssa.TypeAssert:
		fr.env[instr] = in.typeAssert(instr, fr.get(instr.X))
	case *ssa.MakeClosure:
		var bindings []Value
		for _, b := range instr.Bindings {
			bindings = append(bindings, fr.get(b))
		}
		fr.env[instr] = &Closure{instr.Fn.(*ssa.Function), bindings}
	case *ssa.Phi:
		if fr.phiOverride != nil {
			if v, ok := fr.phiOverride[instr]; ok && fr.prev == nil {
				fr.env[instr] = v
				break
			}
		}
		for i, pred := range instr.Block().Preds {
			if fr.prev == pred {
				fr.env[instr] = fr.get(instr.Edges[i])
				break
			}
		}
	case *ssa.MakeChan:
		fr.env[instr] = &Opaque{Kind: "chan"}
	case *ssa.Alloc:
		p := new(Value)
		*p = zero(instr.Type().(*types.Pointer).Elem())
		fr.env[instr] = p
	case *ssa.MakeSlice:
		n := fr.get(instr.Len).(*Term)
		ln, ok := n.ConstInt64()
		if !ok {
			found := false
			for i := int64(0); i <= 64; i++ {
				if in.E.Branch(Eq(n, Int64(i)), "makeslice-len@"+in.posOf(instr.Pos())) {
					ln, found = i, true
					break
				}
			}
			if !found {
				in.unsupp("make slice with symbolic length > 64 at %s", in.posOf(instr.Pos()))
			}
		}
		cp := ln
		if c, ok := fr.get(instr.Cap).(*Term); ok {
			if cv, ok2 := c.ConstInt64(); ok2 && cv > ln {
				cp = cv
			}
		}
		if ln < 0 || cp > 1<<22 {
			in.goPanic(instr.Pos(), "makeslice: len out of range", nil)
		}
		elem := instr.Type().Underlying().(*types.Slice).Elem()
		s := make([]Value, ln, cp)
		for i := range s {
			s[i] = zero(elem)
		}
		// pre-zero the spare capacity too
		full := s[:cp]
		for i := ln; i < cp; i++ {
			full[i] = zero(elem)
		}
		fr.env[instr] = Slice{s}
	case *ssa.MakeMap:
		fr.env[instr] = NewMap()
	case *ssa.Range:
		fr.env[instr] = in.rangeIter(instr, fr.get(instr.X))
	case *ssa.Next:
		fr.env[instr] = in.next(instr, fr.get(instr.Iter))
	default:
		in.unsupp("instruction %T", instr)
	}
	return kNext
}

func fieldName(t types.Type, i int) string {
	if p, ok := t.Underlying().(*types.Pointer); ok {
		if s, ok := p.Elem().Underlying().(*types.Struct); ok && i < s.NumFields() {
			return s.Field(i).Name()
		}
	}
	return fmt.Sprint(i)
}

// concreteIndex resolves an index term to a concrete index, forking over the
// feasible values when it is symbolic; out of range => Go panic.
func (in *Interp) concreteIndex(idx *Term, n int, pos token.Pos) int {
	if v, ok := idx.ConstInt64(); ok {
		if v < 0 || v >= int64(n) {
			in.goPanic(pos, fmt.Sprintf("index out of range [%d] with length %d", v, n), nil)
		}
		return int(v)
	}
	for i := 0; i < n; i++ {
		if in.E.Branch(Eq(idx, Int64(int64(i))), "index@"+in.posOf(pos)) {
			return i
		}
	}
	in.goPanic(pos, fmt.Sprintf("index out of range (symbolic) with length %d", n), nil)
	return 0
}

func (fr *frame) prepareCall(call *ssa.CallCommon) (Value, []Value) {
	in := fr.in
	v := fr.get(call.Value)
	var fn Value
	var args []Value
	if call.Method == nil {
		fn = v
	} else {
		recv, ok := v.(Iface)
		if !ok {
			in.unsupp("invoke on non-interface %T", v)
		}
		if op, ok := recv.V.(*Opaque); ok {
			fn = in.opaqueMethod(op, call.Method.Name(), call.Pos())
		} else {
			if recv.T == nil {
				in.goPanic(call.Pos(), "nil interface method call ."+call.Method.Name(), nil)
			}
			if im, ok := in.summarisedMethod(recv, call.Method.Name()); ok {
				fn = im
			} else {
				m := in.lookupMethod(recv.T, call.Method)
				if m == nil {
					in.unsupp("method %s not found on %v", call.Method.Name(), recv.T)
				}
				fn = m
				args = append(args, recv.V)
			}
		}
	}
	for _, a := range call.Args {
		args = append(args, copyVal(fr.get(a)))
	}
	return fn, args
}

func (in *Interp) lookupMethod(t types.Type, meth *types.Func) *ssa.Function {
	return in.methodOf(t, meth.Pkg(), meth.Name())
}

// methodOf is a non-panicking method lookup (nil when T has no such method).
func (in *Interp) methodOf(t types.Type, pkg *types.Package, name string) *ssa.Function {
	sel := in.Prog.MethodSets.MethodSet(t).Lookup(pkg, name)
	if sel == nil {
		return nil
	}
	return in.Prog.MethodValue(sel)
}

// ---------------------------------------------------------------- builtins

func (in *Interp) callBuiltin(b *ssa.Builtin, args []Value, pos token.Pos) Value {
	if b.Name() == "len" {
		if m, ok := args[0].(MaybeNil); ok {
			return Ite(m.Nil, Int64(0), Int64(int64(len(m.S.V))))
		}
	}
	for i := range args {
		args[i] = in.resolve(args[i])
	}
	switch b.Name() {
	case "append":
		if len(args) == 1 {
			return args[0]
		}
		dst := args[0].(Slice)
		switch src := args[1].(type) {
		case Slice:
			if len(src.V) == 0 {
				return dst
			}
			// Go's append: reuse capacity when it fits (aliasing semantics!)
			if cap(dst.V)-len(dst.V) >= len(src.V) {
				n := len(dst.V)
				out := dst.V[:n+len(src.V)]
				for i, v := range src.V {
					in.write(&out[n+i], copyVal(v))
				}
				return Slice{out}
			}
			out := make([]Value, len(dst.V), growCap(len(dst.V), len(dst.V)+len(src.V)))
			copy(out, dst.V)
			for _, v := range src.V {
				out = append(out, copyVal(v))
			}
			prezero(out)
			return Slice{out}
		case string:
			out := append([]Value{}, dst.V...)
			out = append(out, bytesToVals([]byte(src))...)
			return Slice{out}
		}
		in.unsupp("append of %T", args[1])
	case "copy":
		dst := args[0].(Slice)
		var src []Value
		switch s := args[1].(type) {
		case Slice:
			src = s.V
		case string:
			src = bytesToVals([]byte(s))
		default:
			in.unsupp("copy from %T", args[1])
		}
		n := len(dst.V)
		if len(src) < n {
			n = len(src)
		}
		tmp := make([]Value, n)
		for i := 0; i < n; i++ {
			tmp[i] = copyVal(src[i])
		}
		for i := 0; i < n; i++ {
			in.write(&dst.V[i], tmp[i])
		}
		return Int64(int64(n))
	case "len":
		switch x := args[0].(type) {
		case string:
			return Int64(int64(len(x)))
		case Slice:
			return Int64(int64(len(x.V)))
		case Array:
			return Int64(int64(len(x)))
		case *Value:
			if x == nil {
				return Int64(0)
			}
			return Int64(int64(len((*x).(Array))))
		case *Map:
			return Int64(int64(x.Len()))
		case *Opaque:
			return Int64(0)
		}
		in.unsupp("len of %T", args[0])
	case "cap":
		switch x := args[0].(type) {
		case Slice:
			return Int64(int64(cap(x.V)))
		case Array:
			return Int64(int64(len(x)))
		case *Value:
			return Int64(int64(len((*x).(Array))))
		}
		in.unsupp("cap of %T", args[0])
	case "delete":
		in.noSpec("map delete")
		m, _ := args[0].(*Map)
		if !m.Delete(args[1]) {
			in.unsupp("delete with symbolic key")
		}
		return nil
	case "panic":
		in.goPanic(pos, in.describe(args[0]), args[0])
	case "recover":
		return in.doRecover()
	case "print", "println":
		return nil
	case "min", "max":
		acc := args[0].(*Term)
		for _, a := range args[1:] {
			t := a.(*Term)
			if b.Name() == "min" {
				acc = Ite(Lt(t, acc), t, acc)
			} else {
				acc = Ite(Gt(t, acc), t, acc)
			}
		}
		return acc
	case "clear":
		in.noSpec("clear")
		switch x := args[0].(type) {
		case *Map:
			if x != nil {
				x.Keys, x.Vals, x.index = nil, nil, map[string]int{}
			}
		}
		return nil
	case "ssa:wrapnilchk":
		recv := args[0]
		if p, ok := recv.(*Value); ok && p == nil {
			in.goPanic(pos, "value method called using nil pointer", nil)
		}
		return recv
	}
	in.unsupp("builtin %s", b.Name())
	return nil
}

func growCap(old, need int) int {
	c := old * 2
	if c < need {
		c = need
	}
	if c < 4 {
		c = 4
	}
	return c
}

// prezero fills spare capacity with a placeholder (elements are overwritten
// before being read by any well-formed program).
func prezero(s []Value) {
	full := s[:cap(s)]
	for i := len(s); i < len(full); i++ {
		if full[i] == nil {
			full[i] = Int64(0)
		}
	}
}

// recover support: the innermost frame running deferred calls during a panic.
func (in *Interp) doRecover() Value {
	for i := len(in.curFrames) - 1; i >= 0; i-- {
		fr := in.curFrames[i]
		if fr.panicking != nil && !fr.recovered {
			fr.recovered = true
			gp := fr.panicking
			if gp.Val != nil {
				if iv, ok := gp.Val.(Iface); ok {
					return iv
				}
				return Iface{T: types.Typ[types.String], V: gp.Msg}
			}
			return Iface{T: types.Typ[types.String], V: gp.Msg}
		}
		break
	}
	return Iface{}
}

func (in *Interp) describe(v Value) string {
	switch x := v.(type) {
	case string:
		return x
	case *SymStr:
		return x.Desc
	case Iface:
		if x.T == nil {
			return "nil"
		}
		if e, ok := x.V.(*Value); ok && e != nil {
			if ev, ok := (*e).(*ErrVal); ok {
				return ev.Describe()
			}
		}
		if ev, ok := x.V.(*ErrVal); ok {
			return ev.Describe()
		}
		return fmt.Sprintf("%v(%s)", x.T, in.describe(x.V))
	case *Term:
		return x.String()
	case *ErrVal:
		return x.Describe()
	}
	return fmt.Sprintf("%T", v)
}

// ---------------------------------------------------------------- misc ops

func (in *Interp) sliceOp(instr *ssa.Slice, x, lo, hi, max Value) Value {
	idx := func(v Value, def int) int {
		if v == nil {
			return def
		}
		t := v.(*Term)
		c, ok := t.ConstInt64()
		if !ok {
			// case-split over the feasible concrete values (bounded by capacity)
			limit := 0
			switch xx := x.(type) {
			case string:
				limit = len(xx)
			case Slice:
				limit = cap(xx.V)
			case *Value:
				if xx != nil {
					limit = len((*xx).(Array))
				}
			}
			for i := 0; i <= limit; i++ {
				if in.E.Branch(Eq(t, Int64(int64(i))), "slicebound@"+in.posOf(instr.Pos())) {
					return i
				}
			}
			in.goPanic(instr.Pos(), "slice bounds out of range (symbolic bound)", nil)
		}
		return int(c)
	}
	switch x := x.(type) {
	case string:
		l, h := idx(lo, 0), idx(hi, len(x))
		if l < 0 || h > len(x) || l > h {
			in.goPanic(instr.Pos(), "slice bounds out of range (string)", nil)
		}
		return x[l:h]
	case Slice:
		l, h := idx(lo, 0), idx(hi, len(x.V))
		m := idx(max, cap(x.V))
		if l < 0 || h > cap(x.V) || l > h || m > cap(x.V) || h > m {
			in.goPanic(instr.Pos(), fmt.Sprintf("slice bounds out of range [%d:%d] with capacity %d", l, h, cap(x.V)), nil)
		}
		if x.V == nil {
			return Slice{}
		}
		return Slice{x.V[l:h:m]}
	case *Value:
		if x == nil {
			in.goPanic(instr.Pos(), "nil pointer dereference (slice of array)", nil)
		}
		a := (*x).(Array)
		l, h := idx(lo, 0), idx(hi, len(a))
		m := idx(max, len(a))
		if l < 0 || h > len(a) || l > h || h > m {
			in.goPanic(instr.Pos(), "slice bounds out of range (array)", nil)
		}
		return Slice{[]Value(a)[l:h:m]}
	}
	in.unsupp("slice of %T", x)
	return nil
}

func (in *Interp) lookup(instr *ssa.Lookup, x, k Value) Value {
	switch x := x.(type) {
	case string:
		i := in.concreteIndex(k.(*Term), len(x), instr.Pos())
		return Int64(int64(x[i]))
	case *Map:
		v, found, ok := x.Lookup(k)
		if !ok {
			in.unsupp("map lookup with symbolic key at %s", in.posOf(instr.Pos()))
		}
		if !found {
			v = zero(instr.X.Type().Underlying().(*types.Map).Elem())
		}
		v = copyVal(v)
		if instr.CommaOk {
			return Tuple{v, BoolConst(found)}
		}
		return v
	}
	in.unsupp("lookup on %T", x)
	return nil
}

type strIter struct {
	s   []rune
	off []int
	pos int
}

func (in *Interp) rangeIter(instr *ssa.Range, x Value) Value {
	switch x := x.(type) {
	case *Map:
		if x == nil {
			return &Opaque{Kind: "mapiter", Data: &mapIterSnap{}}
		}
		n := len(x.Keys)
		var order []int
		if in.MapOrderNondet {
			rem := make([]int, n)
			for i := range rem {
				rem[i] = i
			}
			for len(rem) > 0 {
				c := in.E.Choose(len(rem), "maporder@"+in.posOf(instr.Pos()))
				order = append(order, rem[c])
				rem = append(rem[:c:c], rem[c+1:]...)
			}
		} else {
			for i := 0; i < n; i++ {
				order = append(order, i)
			}
		}
		keys := make([]Value, n)
		copy(keys, x.Keys)
		return &Opaque{Kind: "mapiter", Data: &mapIterSnap{m: x, keys: keys, order: order}}
	case string:
		it := &strIter{}
		for off, r := range x {
			it.s = append(it.s, r)
			it.off = append(it.off, off)
		}
		return &Opaque{Kind: "striter", Data: it}
	}
	in.unsupp("range over %T", x)
	return nil
}

type mapIterSnap struct {
	m     *Map
	keys  []Value
	order []int
	pos   int
}

func (in *Interp) next(instr *ssa.Next, itv Value) Value {
	op := itv.(*Opaque)
	switch it := op.Data.(type) {
	case *mapIterSnap:
		in.noSpec("map iterator advance")
		for it.pos < len(it.order) {
			k := it.keys[it.order[it.pos]]
			it.pos++
			v, found, _ := it.m.Lookup(k)
			if !found {
				continue // deleted during iteration
			}
			return Tuple{True, copyVal(k), copyVal(v)}
		}
		return Tuple{False, nil, nil}
	case *strIter:
		in.noSpec("string iterator advance")
		if it.pos < len(it.s) {
			i := it.pos
			it.pos++
			return Tuple{True, Int64(int64(it.off[i])), Int64(int64(it.s[i]))}
		}
		return Tuple{False, Int64(0), Int64(0)}
	}
	in.unsupp("next on %T", op.Data)
	return nil
}

func (in *Interp) implements(t types.Type, iface *types.Interface) bool {
	return types.Implements(t, iface)
}

func (in *Interp) typeAssert(instr *ssa.TypeAssert, x Value) Value {
	iv, ok := x.(Iface)
	if !ok {
		in.unsupp("type assert on %T", x)
	}
	var okRes bool
	var v Value
	if it, isIface := instr.AssertedType.Underlying().(*types.Interface); isIface {
		if iv.T != nil {
			if _, isOp := iv.V.(*Opaque); isOp {
				okRes = true
			} else {
				okRes = in.implements(iv.T, it)
			}
		}
		v = iv
		if !okRes {
			v = Iface{}
		}
	} else {
		okRes = iv.T != nil && types.Identical(iv.T, instr.AssertedType)
		if okRes {
			v = copyVal(iv.V)
		} else {
			v = zero(instr.AssertedType)
		}
	}
	if instr.CommaOk {
		return Tuple{v, BoolConst(okRes)}
	}
	if !okRes {
		in.goPanic(instr.Pos(), fmt.Sprintf("interface conversion: %v is not %v", iv.T, instr.AssertedType), nil)
	}
	return v
}

func (in *Interp) lenientCall(fn Value, args []Value, instr *ssa.Call) (res Value) {
	defer func() {
		if r := recover(); r != nil {
			switch x := r.(type) {
			case *GoPanic:
				if os.Getenv("GOSYM_DEBUG_INIT") != "" {
					fmt.Fprintf(os.Stderr, "init: call at %s panicked: %s\n", in.posOf(instr.Pos()), x.Msg)
				}
			case *pathEnd:
				if x.kind != "unsupported" {
					panic(r)
				}
				if os.Getenv("GOSYM_DEBUG_INIT") != "" {
					fmt.Fprintf(os.Stderr, "init: call at %s unsupported: %s\n", in.posOf(instr.Pos()), x.reason)
				}
			default:
				panic(r)
			}
			res = Tainted{Why: "initialiser call at " + in.posOf(instr.Pos())}
		}
	}()
	return in.callValue(fn, args, instr.Pos())
}

// taintStep propagates Tainted operands through an instruction executed during
// package initialisation.
func (fr *frame) taintStep(instr ssa.Instruction) (bool, int) {
	var why string
	tainted := false
	for _, op := range instr.Operands(nil) {
		if *op == nil {
			continue
		}
		switch (*op).(type) {
		case *ssa.Function, *ssa.Builtin, *ssa.Const, *ssa.Global:
			continue
		}
		if v, ok := fr.env[*op]; ok {
			if t, bad := v.(Tainted); bad {
				tainted, why = true, t.Why
			}
		}
	}
	if !tainted {
		return false, 0
	}
	switch x := instr.(type) {
	case *ssa.Store:
		if p, ok := fr.get(x.Addr).(*Value); ok && p != nil {
			*p = Tainted{Why: why}
		}
		return true, kNext
	case *ssa.If, *ssa.Return, *ssa.Panic, *ssa.Jump, *ssa.RunDefers, *ssa.Defer, *ssa.MapUpdate, *ssa.Send, *ssa.Go:
		if _, isRet := x.(*ssa.Return); isRet {
			fr.result = Tainted{Why: why}
			return true, kReturn
		}
		fr.in.goPanic(instr.Pos(), "initialiser depends on an unmodelled value ("+why+")", nil)
	}
	if v, ok := instr.(ssa.Value); ok {
		fr.env[v] = Tainted{Why: why}
		return true, kNext
	}
	return true, kNext
}

// CallEntry runs a harness entry point (no arguments).
func (in *Interp) CallEntry(fn *ssa.Function) {
	in.callFunction(fn, nil, nil, token.NoPos)
}
