package sym

import (
	"fmt"
	"strings"
)

const bech32Charset = "qpzry9x8gf2tvdw0s3jn54khce6mua7l"

var bech32Gen = []int{0x3b6a57b2, 0x26508e6d, 0x1ea119fa, 0x3d4233dd, 0x2a1462b3}

func bech32Polymod(values []int) int {
	chk := 1
	for _, v := range values {
		b := chk >> 25
		chk = (chk&0x1ffffff)<<5 ^ v
		for i := 0; i < 5; i++ {
			if (b>>uint(i))&1 == 1 {
				chk ^= bech32Gen[i]
			}
		}
	}
	return chk
}

func bech32HrpExpand(hrp string) []int {
	var v []int
	for _, c := range hrp {
		v = append(v, int(c>>5))
	}
	v = append(v, 0)
	for _, c := range hrp {
		v = append(v, int(c&31))
	}
	return v
}

func convertBits(data []byte, from, to uint, pad bool) ([]byte, error) {
	acc, bits := 0, uint(0)
	var out []byte
	maxv := (1 << to) - 1
	for _, b := range data {
		if int(b)>>from != 0 {
			return nil, fmt.Errorf("invalid data range")
		}
		acc = acc<<from | int(b)
		bits += from
		for bits >= to {
			bits -= to
			out = append(out, byte(acc>>bits&maxv))
		}
	}
	if pad {
		if bits > 0 {
			out = append(out, byte(acc<<(to-bits)&maxv))
		}
	} else if bits >= from || (acc<<(to-bits))&maxv != 0 {
		return nil, fmt.Errorf("invalid padding")
	}
	return out, nil
}

func Bech32Encode(hrp string, data []byte) string {
	conv, _ := convertBits(data, 8, 5, true)
	var vals []int
	for _, b := range conv {
		vals = append(vals, int(b))
	}
	chkIn := append(bech32HrpExpand(hrp), vals...)
	chkIn = append(chkIn, 0, 0, 0, 0, 0, 0)
	pm := bech32Polymod(chkIn) ^ 1
	var sb strings.Builder
	sb.WriteString(hrp)
	sb.WriteByte('1')
	for _, v := range vals {
		sb.WriteByte(bech32Charset[v])
	}
	for i := 0; i < 6; i++ {
		sb.WriteByte(bech32Charset[(pm>>uint(5*(5-i)))&31])
	}
	return sb.String()
}

func Bech32Decode(s string) (string, []byte, error) {
	if len(s) < 8 || len(s) > 1023 {
		return "", nil, fmt.Errorf("invalid bech32 string length %d", len(s))
	}
	lower, upper := strings.ToLower(s), strings.ToUpper(s)
	if s != lower && s != upper {
		return "", nil, fmt.Errorf("string not all lowercase or all uppercase")
	}
	s = lower
	one := strings.LastIndexByte(s, '1')
	if one < 1 || one+7 > len(s) {
		return "", nil, fmt.Errorf("invalid separator index %d", one)
	}
	hrp, data := s[:one], s[one+1:]
	var vals []int
	for _, c := range data {
		i := strings.IndexRune(bech32Charset, c)
		if i < 0 {
			return "", nil, fmt.Errorf("invalid character not part of charset: %v", c)
		}
		vals = append(vals, i)
	}
	if bech32Polymod(append(bech32HrpExpand(hrp), vals...)) != 1 {
		return "", nil, fmt.Errorf("invalid checksum")
	}
	vals = vals[:len(vals)-6]
	bs := make([]byte, len(vals))
	for i, v := range vals {
		bs[i] = byte(v)
	}
	out, err := convertBits(bs, 5, 8, false)
	if err != nil {
		return "", nil, err
	}
	return hrp, out, nil
}
