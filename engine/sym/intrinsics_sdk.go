package sym

import (
	"crypto/sha256"
	"fmt"
	"go/token"
	"go/types"
	"math/big"
	"regexp"
	"strings"

	"golang.org/x/tools/go/ssa"
)

var opaqueT types.Type = types.NewNamed(types.NewTypeName(token.NoPos, nil, "engineOpaque", nil), types.NewStruct(nil, nil), nil)

func opIface(kind string, data interface{}) Value {
	return Iface{T: opaqueT, V: &Opaque{Kind: kind, Data: data}}
}

// Blob is the content of marshalled bytes.
type Blob struct {
	V   Value
	Typ string
}

func blobSlice(v Value, typ string) Slice {
	return Slice{[]Value{Blob{V: DeepCopy(v), Typ: typ}}}
}

func blobOf(v Value) (Blob, bool, bool) {
	s, ok := v.(Slice)
	if !ok {
		return Blob{}, false, false
	}
	if len(s.V) == 0 {
		return Blob{}, false, true // empty
	}
	b, ok := s.V[0].(Blob)
	return b, ok, false
}

func (in *Interp) ctxOf(v Value) *CtxData {
	if iv, ok := v.(Iface); ok {
		v = iv.V
	}
	op, ok := v.(*Opaque)
	if !ok || op.Kind != "ctx" {
		in.unsupp("sdk.Context expected, got %T", v)
	}
	cd, _ := op.Data.(*CtxData)
	if cd == nil {
		in.unsupp("use of zero sdk.Context")
	}
	return cd
}

func ctxVal(cd *CtxData) Value { return &Opaque{Kind: "ctx", Data: cd} }

func (in *Interp) timeOf(v Value) *Term {
	t, ok := v.(Time)
	if !ok {
		in.unsupp("time.Time expected, got %T", v)
	}
	return t.T
}

// packagePolicy: blanket handling of whole packages.
func (in *Interp) packagePolicy(fn *ssa.Function, args []Value, pos token.Pos) (Value, bool) {
	if fn.Pkg == nil {
		return nil, false
	}
	p := fn.Pkg.Pkg.Path()
	switch {
	case p == "github.com/cosmos/cosmos-sdk/telemetry", strings.HasPrefix(p, "github.com/hashicorp/go-metrics"), p == "cosmossdk.io/log":
		return zeroResult(fn.Signature), true
	}
	switch p {
	case "fmt", "reflect", "runtime", "os", "log", "regexp", "encoding/json", "sync", "sync/atomic", "unsafe", "syscall", "internal/reflectlite", "github.com/cosmos/gogoproto/proto", "github.com/cosmos/gogoproto/jsonpb", "google.golang.org/protobuf/proto":
		if in.lenient > 0 {
			return Tainted{Why: "no model for " + fn.String()}, true
		}
		in.unsupp("no model for %s", fn.String())
	}
	return nil, false
}

// protoIntercept replaces generated protobuf (un)marshalling by blob round trips.
func (in *Interp) protoIntercept(fn *ssa.Function, args []Value, pos token.Pos) (Value, bool) {
	recv := fn.Signature.Recv()
	if recv == nil {
		return nil, false
	}
	switch fn.Name() {
	case "Marshal", "Unmarshal", "Size", "MarshalTo", "MarshalToSizedBuffer", "String", "Reset", "XXX_Unmarshal", "XXX_Marshal", "XXX_Size", "Descriptor":
	default:
		return nil, false
	}
	if !isPbGo(in, fn) {
		return nil, false
	}
	for i := range args {
		args[i] = in.resolve(args[i])
	}
	self := args[0]
	content := func() Value {
		if p, ok := self.(*Value); ok {
			if p == nil {
				in.goPanic(pos, "nil pointer dereference (proto method on nil)", nil)
			}
			return *p
		}
		return self
	}
	switch fn.Name() {
	case "Marshal":
		return tup(blobSlice(content(), recv.Type().String()), Iface{}), true
	case "Size", "XXX_Size":
		return Int64(1), true
	case "String":
		return &SymStr{Desc: "proto.String"}, true
	case "Reset":
		p := self.(*Value)
		in.write(p, zero(recv.Type().(*types.Pointer).Elem()))
		return nil, true
	case "Unmarshal":
		p := self.(*Value)
		in.unmarshalInto(p, args[1], recv.Type().(*types.Pointer).Elem(), pos)
		return Iface{}, true
	}
	in.unsupp("proto method %s", fn.String())
	return nil, true
}

func (in *Interp) unmarshalInto(p *Value, bz Value, elem types.Type, pos token.Pos) {
	b, ok, empty := blobOf(bz)
	switch {
	case empty:
		in.write(p, zero(elem))
	case ok:
		in.write(p, DeepCopy(b.V))
	default:
		in.unsupp("unmarshal of raw bytes (not produced by a modelled Marshal) at %s", in.posOf(pos))
	}
}

func (in *Interp) globalIntrinsic(g *ssa.Global) (Value, bool) {
	if g.Pkg == nil {
		return nil, false
	}
	switch g.Pkg.Pkg.Path() + "." + g.Name() {
	case pkgSDK + ".DefaultPowerReduction":
		return BigInt{Int64(1000000)}, true
	case pkgSDK + ".DefaultBondDenom":
		return "stake", true
	case "encoding/binary.BigEndian":
		return Struct{}, true
	}
	return nil, false
}

// opaqueMethod dispatches method calls on engine objects.
func (in *Interp) opaqueMethod(op *Opaque, name string, pos token.Pos) Value {
	mk := func(f func(in *Interp, a []Value, pos token.Pos) Value) Value {
		return &BoundIntrinsic{Recv: op, Name: op.Kind + "." + name, Fn: f}
	}
	switch op.Kind {
	case "store":
		kv := op.Data.(*KV)
		switch name {
		case "Get":
			return mk(func(in *Interp, a []Value, pos token.Pos) Value { return in.kvGet(kv, a[1].(Slice).V, pos) })
		case "Has":
			return mk(func(in *Interp, a []Value, pos token.Pos) Value {
				return in.kvHas(kv, a[1].(Slice).V)
			})
		case "Set":
			return mk(func(in *Interp, a []Value, pos token.Pos) Value {
				in.kvSet(kv, a[1].(Slice).V, a[2], pos)
				return nil
			})
		case "Delete":
			return mk(func(in *Interp, a []Value, pos token.Pos) Value {
				in.kvDelete(kv, a[1].(Slice).V, pos)
				return nil
			})
		case "Iterator":
			return mk(func(in *Interp, a []Value, pos token.Pos) Value {
				return opIface("iter", in.kvIterator(kv, a[1], a[2], false))
			})
		case "ReverseIterator":
			return mk(func(in *Interp, a []Value, pos token.Pos) Value {
				return opIface("iter", in.kvIterator(kv, a[1], a[2], true))
			})
		}
	case "iter":
		it := op.Data.(*kvIter)
		switch name {
		case "Valid":
			return mk(func(in *Interp, a []Value, pos token.Pos) Value { return it.validT() })
		case "Next":
			return mk(func(in *Interp, a []Value, pos token.Pos) Value {
				if !in.settle(it) {
					in.goPanic(pos, "iterator is invalid", nil)
				}
				in.noSpec("iterator advance")
				it.pos++
				return nil
			})
		case "Key":
			return mk(func(in *Interp, a []Value, pos token.Pos) Value {
				if !in.settle(it) {
					in.goPanic(pos, "iterator is invalid", nil)
				}
				k := it.items[it.pos].key
				out := make([]Value, len(k))
				copy(out, k)
				return Slice{out}
			})
		case "Value":
			return mk(func(in *Interp, a []Value, pos token.Pos) Value {
				if !in.settle(it) {
					in.goPanic(pos, "iterator is invalid", nil)
				}
				return DeepCopy(it.items[it.pos].val)
			})
		case "Close":
			return mk(func(in *Interp, a []Value, pos token.Pos) Value { return Iface{} })
		case "Error":
			return mk(func(in *Interp, a []Value, pos token.Pos) Value { return Iface{} })
		}
	case "logger":
		switch name {
		case "With":
			return mk(func(in *Interp, a []Value, pos token.Pos) Value { return Iface{T: opaqueT, V: op} })
		default:
			return mk(func(in *Interp, a []Value, pos token.Pos) Value { return nil })
		}
	case "em":
		switch name {
		case "EmitEvent", "EmitEvents":
			return mk(func(in *Interp, a []Value, pos token.Pos) Value {
				in.noSpec("event emission")
				w := op.Data.(*World)
				w.Events = append(w.Events, DeepCopy(a[1]))
				return nil
			})
		case "EmitTypedEvent", "EmitTypedEvents":
			return mk(func(in *Interp, a []Value, pos token.Pos) Value { return Iface{} })
		}
	case "codec":
		switch name {
		case "MustMarshal", "MustMarshalJSON", "MustMarshalLengthPrefixed":
			return mk(func(in *Interp, a []Value, pos token.Pos) Value { return in.codecMarshal(a[1], pos) })
		case "Marshal", "MarshalJSON", "MarshalLengthPrefixed":
			return mk(func(in *Interp, a []Value, pos token.Pos) Value { return tup(in.codecMarshal(a[1], pos), Iface{}) })
		case "MustUnmarshal", "MustUnmarshalJSON", "MustUnmarshalLengthPrefixed":
			return mk(func(in *Interp, a []Value, pos token.Pos) Value {
				in.codecUnmarshal(a[1], a[2], pos)
				return nil
			})
		case "Unmarshal", "UnmarshalJSON", "UnmarshalLengthPrefixed":
			return mk(func(in *Interp, a []Value, pos token.Pos) Value {
				in.codecUnmarshal(a[1], a[2], pos)
				return Iface{}
			})
		}
	case "nilchan":
	}
	in.unsupp("method %s on engine object %s at %s", name, op.Kind, in.posOf(pos))
	return nil
}

func (in *Interp) codecMarshal(msg Value, pos token.Pos) Value {
	iv, ok := msg.(Iface)
	if !ok {
		in.unsupp("codec marshal of %T", msg)
	}
	p, ok := iv.V.(*Value)
	if !ok || p == nil {
		in.unsupp("codec marshal of non-pointer %T", iv.V)
	}
	return blobSlice(*p, iv.T.String())
}

func (in *Interp) codecUnmarshal(bz Value, ptr Value, pos token.Pos) {
	iv, ok := ptr.(Iface)
	if !ok {
		in.unsupp("codec unmarshal into %T", ptr)
	}
	p, ok := iv.V.(*Value)
	if !ok || p == nil {
		in.unsupp("codec unmarshal into non-pointer")
	}
	in.unmarshalInto(p, bz, iv.T.(*types.Pointer).Elem(), pos)
}

func (in *Interp) consAddrBytes(v Value) ([]byte, bool) {
	s, ok := v.(Slice)
	if !ok {
		return nil, false
	}
	return bytesOf(s.V)
}

func init() {
	S := pkgSDK
	C := "(" + S + ".Context)."
	// ---------------- sdk.Context
	reg(C+"KVStore", func(in *Interp, fn *ssa.Function, a []Value, pos token.Pos) Value {
		cd := in.ctxOf(a[0])
		key, ok := a[1].(Iface)
		if !ok || key.T == nil {
			in.goPanic(pos, "nil store key", nil)
		}
		kp, ok := key.V.(*Value)
		if !ok {
			in.unsupp("store key of kind %T", key.V)
		}
		return opIface("store", cd.W.store(kp))
	})
	reg(C+"BlockTime", func(in *Interp, fn *ssa.Function, a []Value, pos token.Pos) Value { return in.ctxOf(a[0]).Time })
	reg(C+"BlockHeight", func(in *Interp, fn *ssa.Function, a []Value, pos token.Pos) Value { return in.ctxOf(a[0]).Height })
	reg(C+"ChainID", func(in *Interp, fn *ssa.Function, a []Value, pos token.Pos) Value { return in.ctxOf(a[0]).ChainID })
	reg(C+"Logger", func(in *Interp, fn *ssa.Function, a []Value, pos token.Pos) Value { return opIface("logger", nil) })
	reg(C+"EventManager", func(in *Interp, fn *ssa.Function, a []Value, pos token.Pos) Value {
		return opIface("em", in.ctxOf(a[0]).W)
	})
	reg(C+"Done", func(in *Interp, fn *ssa.Function, a []Value, pos token.Pos) Value { return &Opaque{Kind: "nilchan"} })
	reg(C+"IsCheckTx", func(in *Interp, fn *ssa.Function, a []Value, pos token.Pos) Value { return False })
	reg(C+"IsZero", func(in *Interp, fn *ssa.Function, a []Value, pos token.Pos) Value { return False })
	reg(C+"CacheContext", func(in *Interp, fn *ssa.Function, a []Value, pos token.Pos) Value {
		cd := in.ctxOf(a[0])
		nw := cd.W.clone()
		ncd := *cd
		ncd.W = nw
		parent := cd.W
		write := &BoundIntrinsic{Recv: nil, Name: "writeCache", Fn: func(in *Interp, a []Value, pos token.Pos) Value {
			in.noSpec("cache-context write")
			in.commitWorld(nw, parent)
			return nil
		}}
		return tup(ctxVal(&ncd), write)
	})
	reg(C+"WithBlockTime", func(in *Interp, fn *ssa.Function, a []Value, pos token.Pos) Value {
		ncd := *in.ctxOf(a[0])
		ncd.Time = a[1].(Time)
		return ctxVal(&ncd)
	})
	reg(C+"WithBlockHeight", func(in *Interp, fn *ssa.Function, a []Value, pos token.Pos) Value {
		ncd := *in.ctxOf(a[0])
		ncd.Height = a[1].(*Term)
		return ctxVal(&ncd)
	})
	reg(C+"WithChainID", func(in *Interp, fn *ssa.Function, a []Value, pos token.Pos) Value {
		ncd := *in.ctxOf(a[0])
		ncd.ChainID = a[1]
		return ctxVal(&ncd)
	})
	reg(C+"WithEventManager", func(in *Interp, fn *ssa.Function, a []Value, pos token.Pos) Value { return a[0] })
	reg(C+"WithGasMeter", func(in *Interp, fn *ssa.Function, a []Value, pos token.Pos) Value { return a[0] })
	reg(S+".UnwrapSDKContext", func(in *Interp, fn *ssa.Function, a []Value, pos token.Pos) Value {
		iv, ok := a[0].(Iface)
		if !ok || iv.V == nil {
			in.goPanic(pos, "UnwrapSDKContext of nil context", nil)
		}
		return iv.V
	})
	reg(S+".WrapSDKContext", func(in *Interp, fn *ssa.Function, a []Value, pos token.Pos) Value {
		return Iface{T: opaqueT, V: a[0]}
	})
	reg(S+".NewEvent", func(in *Interp, fn *ssa.Function, a []Value, pos token.Pos) Value {
		return Struct{a[0], Slice{append([]Value{}, variadic(a[1])...)}}
	})
	reg(S+".NewAttribute", func(in *Interp, fn *ssa.Function, a []Value, pos token.Pos) Value {
		return Struct{a[0], a[1]}
	})
	reg("(*"+S+".EventManager).EmitEvent", func(in *Interp, fn *ssa.Function, a []Value, pos token.Pos) Value { return nil })
	reg("(*"+S+".EventManager).EmitEvents", func(in *Interp, fn *ssa.Function, a []Value, pos token.Pos) Value { return nil })

	// ---------------- store helpers
	reg(storeTypes+".KVStorePrefixIterator", func(in *Interp, fn *ssa.Function, a []Value, pos token.Pos) Value {
		kv := a[0].(Iface).V.(*Opaque).Data.(*KV)
		return opIface("iter", in.kvPrefixIterator(kv, a[1], false))
	})
	reg(storeTypes+".KVStoreReversePrefixIterator", func(in *Interp, fn *ssa.Function, a []Value, pos token.Pos) Value {
		kv := a[0].(Iface).V.(*Opaque).Data.(*KV)
		return opIface("iter", in.kvPrefixIterator(kv, a[1], true))
	})

	// ---------------- time
	T := "(time.Time)."
	reg(T+"Add", func(in *Interp, fn *ssa.Function, a []Value, pos token.Pos) Value {
		return Time{Add(in.timeOf(a[0]), a[1].(*Term))}
	})
	reg(T+"Sub", func(in *Interp, fn *ssa.Function, a []Value, pos token.Pos) Value {
		d := Sub(in.timeOf(a[0]), in.timeOf(a[1]))
		lo, hi := rangeOf(64, true)
		in.E.AddOverflowOb(InRange(d, lo, hi), in.posOf(pos)+"(time.Sub saturates)")
		return d
	})
	reg(T+"After", func(in *Interp, fn *ssa.Function, a []Value, pos token.Pos) Value { return Gt(in.timeOf(a[0]), in.timeOf(a[1])) })
	reg(T+"Before", func(in *Interp, fn *ssa.Function, a []Value, pos token.Pos) Value { return Lt(in.timeOf(a[0]), in.timeOf(a[1])) })
	reg(T+"Equal", func(in *Interp, fn *ssa.Function, a []Value, pos token.Pos) Value { return Eq(in.timeOf(a[0]), in.timeOf(a[1])) })
	reg(T+"Compare", func(in *Interp, fn *ssa.Function, a []Value, pos token.Pos) Value {
		x, y := in.timeOf(a[0]), in.timeOf(a[1])
		return Ite(Lt(x, y), Int64(-1), Ite(Gt(x, y), Int64(1), Int64(0)))
	})
	reg(T+"IsZero", func(in *Interp, fn *ssa.Function, a []Value, pos token.Pos) Value {
		return Eq(in.timeOf(a[0]), IntConst(zeroTimeNs))
	})
	reg(T+"UTC", func(in *Interp, fn *ssa.Function, a []Value, pos token.Pos) Value { return a[0] })
	reg(T+"Round", func(in *Interp, fn *ssa.Function, a []Value, pos token.Pos) Value {
		if d, ok := a[1].(*Term).ConstInt64(); !ok || d > 1 {
			in.unsupp("time.Round with non-trivial duration")
		}
		return a[0]
	})
	reg(T+"UnixNano", func(in *Interp, fn *ssa.Function, a []Value, pos token.Pos) Value {
		t := in.timeOf(a[0])
		lo, hi := rangeOf(64, true)
		in.E.AddOverflowOb(InRange(t, lo, hi), in.posOf(pos)+"(UnixNano range)")
		return t
	})
	reg(T+"Unix", func(in *Interp, fn *ssa.Function, a []Value, pos token.Pos) Value {
		return FloorDiv(in.timeOf(a[0]), Int64(1000000000))
	})
	reg(T+"String", func(in *Interp, fn *ssa.Function, a []Value, pos token.Pos) Value { return &SymStr{Desc: "time.String"} })
	reg("time.Unix", func(in *Interp, fn *ssa.Function, a []Value, pos token.Pos) Value {
		return Time{Add(Mul(a[0].(*Term), Int64(1000000000)), a[1].(*Term))}
	})
	reg("time.Now", func(in *Interp, fn *ssa.Function, a []Value, pos token.Pos) Value {
		in.unsupp("NONDETERMINISM: time.Now() reached at %s", in.posOf(pos))
		return nil
	})
	reg(S+".FormatTimeBytes", func(in *Interp, fn *ssa.Function, a []Value, pos token.Pos) Value {
		t := in.timeOf(a[0])
		// order preservation of the textual format needs years 0001..9999
		maxNs := new(big.Int).Mul(big.NewInt(253402300799), big.NewInt(1000000000))
		in.E.AddOverflowOb(InRange(t, zeroTimeNs, maxNs), in.posOf(pos)+"(time outside years 1..9999)")
		out := make([]Value, timeBytesLen)
		for i := range out {
			out[i] = TimeByte{T: t, I: i}
		}
		return Slice{out}
	})
	reg(S+".ParseTimeBytes", func(in *Interp, fn *ssa.Function, a []Value, pos token.Pos) Value {
		s := a[0].(Slice).V
		if len(s) == timeBytesLen {
			if tb, ok := s[0].(TimeByte); ok && tb.I == 0 {
				okAll := true
				for i := range s {
					x, ok := s[i].(TimeByte)
					if !ok || x.T != tb.T || x.I != i {
						okAll = false
					}
				}
				if okAll {
					return tup(Time{tb.T}, Iface{})
				}
			}
		}
		if b, ok := bytesOf(s); ok {
			if ns, ok := parseTimeNs(string(b)); ok {
				return tup(Time{IntConst(ns)}, Iface{})
			}
			return tup(ZeroTime(), errIface(&ErrVal{Msg: "cannot parse time bytes"}))
		}
		in.unsupp("ParseTimeBytes of mixed symbolic bytes")
		return nil
	})
	reg(S+".FormatTimeString", func(in *Interp, fn *ssa.Function, a []Value, pos token.Pos) Value { return &SymStr{Desc: "time"} })

	// ---------------- addresses
	addrString := func(prefix string) Intrinsic {
		return func(in *Interp, fn *ssa.Function, a []Value, pos token.Pos) Value {
			s, ok := a[0].(Slice)
			if !ok {
				in.unsupp("address String on %T", a[0])
			}
			if len(s.V) == 0 {
				return ""
			}
			b, ok := bytesOf(s.V)
			if !ok {
				return &SymStr{Desc: prefix + "(symbolic address)"}
			}
			return Bech32Encode(prefix, b)
		}
	}
	reg("("+S+".ConsAddress).String", addrString("cosmosvalcons"))
	reg("("+S+".ValAddress).String", addrString("cosmosvaloper"))
	reg("("+S+".AccAddress).String", addrString("cosmos"))
	fromBech := func(prefix string) Intrinsic {
		return func(in *Interp, fn *ssa.Function, a []Value, pos token.Pos) Value {
			str := strOf(in, a[0])
			fail := func(msg string) Value { return tup(Slice{}, errIface(&ErrVal{Msg: msg})) }
			if len(strings.TrimSpace(str)) == 0 {
				return fail("empty address string is not allowed")
			}
			hrp, bz, err := Bech32Decode(str)
			if err != nil {
				return fail(err.Error())
			}
			if hrp != prefix {
				return fail(fmt.Sprintf("invalid Bech32 prefix; expected %s, got %s", prefix, hrp))
			}
			if len(bz) == 0 {
				return fail("addresses cannot be empty")
			}
			if len(bz) > 255 {
				return fail("address max length is 255")
			}
			return tup(sliceOfBytes(bz), Iface{})
		}
	}
	reg(S+".ConsAddressFromBech32", fromBech("cosmosvalcons"))
	reg(S+".ValAddressFromBech32", fromBech("cosmosvaloper"))
	reg(S+".AccAddressFromBech32", fromBech("cosmos"))
	reg(S+".VerifyAddressFormat", func(in *Interp, fn *ssa.Function, a []Value, pos token.Pos) Value {
		n := len(a[0].(Slice).V)
		if n == 0 {
			return errIface(&ErrVal{Msg: "addresses cannot be empty"})
		}
		if n > 255 {
			return errIface(&ErrVal{Msg: "address max length is 255"})
		}
		return Iface{}
	})
	reg("crypto/sha256.Sum256", func(in *Interp, fn *ssa.Function, a []Value, pos token.Pos) Value {
		b, ok := bytesOf(a[0].(Slice).V)
		if !ok {
			in.unsupp("sha256 of symbolic bytes")
		}
		h := sha256.Sum256(b)
		return Array(bytesToVals(h[:]))
	})
}

func init() {
	reg("(time.Time).MarshalBinary", func(in *Interp, fn *ssa.Function, a []Value, pos token.Pos) Value {
		return tup(blobSlice(a[0], "time.Time"), Iface{})
	})
	reg("(*time.Time).UnmarshalBinary", func(in *Interp, fn *ssa.Function, a []Value, pos token.Pos) Value {
		p := a[0].(*Value)
		b, ok, _ := blobOf(a[1])
		if !ok {
			return errIface(&ErrVal{Msg: "Time.UnmarshalBinary: invalid data"})
		}
		in.write(p, b.V)
		return Iface{}
	})
}

var revisionFormat = regexp.MustCompile(`^.*[^\n-]-{1}[1-9][0-9]*$`)

func init() {
	CT := "github.com/cosmos/ibc-go/v10/modules/core/02-client/types."
	reg(CT+"ParseChainID", func(in *Interp, fn *ssa.Function, a []Value, pos token.Pos) Value {
		s := strOf(in, a[0])
		if !revisionFormat.MatchString(s) {
			return Int64(0)
		}
		parts := strings.Split(s, "-")
		v, ok := new(big.Int).SetString(parts[len(parts)-1], 10)
		if !ok || !v.IsUint64() {
			in.goPanic(pos, "regex allowed non-number value as last split element for chainID", nil)
		}
		return IntConst(v)
	})
}

func init() {
	PC := "(*github.com/cosmos/cosmos-sdk/codec.ProtoCodec)."
	for _, n := range []string{"MustMarshal", "MustMarshalJSON", "MustMarshalLengthPrefixed"} {
		reg(PC+n, func(in *Interp, fn *ssa.Function, a []Value, pos token.Pos) Value { return in.codecMarshal(a[1], pos) })
	}
	for _, n := range []string{"Marshal", "MarshalJSON", "MarshalLengthPrefixed"} {
		reg(PC+n, func(in *Interp, fn *ssa.Function, a []Value, pos token.Pos) Value {
			return tup(in.codecMarshal(a[1], pos), Iface{})
		})
	}
	for _, n := range []string{"MustUnmarshal", "MustUnmarshalJSON", "MustUnmarshalLengthPrefixed"} {
		reg(PC+n, func(in *Interp, fn *ssa.Function, a []Value, pos token.Pos) Value {
			in.codecUnmarshal(a[1], a[2], pos)
			return nil
		})
	}
	for _, n := range []string{"Unmarshal", "UnmarshalJSON", "UnmarshalLengthPrefixed"} {
		reg(PC+n, func(in *Interp, fn *ssa.Function, a []Value, pos token.Pos) Value {
			// decoding into a different message type than was encoded fails (JSON/proto mismatch)
			if b, ok, _ := blobOf(a[1]); ok {
				if iv, ok2 := a[2].(Iface); ok2 && iv.T != nil && b.Typ != "" && b.Typ != iv.T.String() && b.Typ != "any" {
					return errIface(&ErrVal{Msg: "cannot unmarshal " + b.Typ + " into " + iv.T.String()})
				}
			}
			in.codecUnmarshal(a[1], a[2], pos)
			return Iface{}
		})
	}
}

func init() {
	B := "github.com/cosmos/cosmos-sdk/types/bech32."
	reg(B+"DecodeAndConvert", func(in *Interp, fn *ssa.Function, a []Value, pos token.Pos) Value {
		hrp, bz, err := Bech32Decode(strOf(in, a[0]))
		if err != nil {
			return tup("", Slice{}, errIface(&ErrVal{Msg: "decoding bech32 failed: " + err.Error()}))
		}
		return tup(hrp, sliceOfBytes(bz), Iface{})
	})
	reg(B+"ConvertAndEncode", func(in *Interp, fn *ssa.Function, a []Value, pos token.Pos) Value {
		b, ok := bytesOf(a[1].(Slice).V)
		if !ok {
			return tup(&SymStr{Desc: "bech32(symbolic)"}, Iface{})
		}
		return tup(Bech32Encode(strOf(in, a[0]), b), Iface{})
	})
}

var denomRe = regexp.MustCompile(`^[a-zA-Z][a-zA-Z0-9/:._-]{2,127}$`)

func init() {
	reg("strings.Compare", func(in *Interp, fn *ssa.Function, a []Value, pos token.Pos) Value {
		return Int64(int64(strings.Compare(strOf(in, a[0]), strOf(in, a[1]))))
	})
	reg(pkgSDK+".ValidateDenom", func(in *Interp, fn *ssa.Function, a []Value, pos token.Pos) Value {
		if !denomRe.MatchString(strOf(in, a[0])) {
			return errIface(&ErrVal{Msg: "invalid denom: " + strOf(in, a[0])})
		}
		return Iface{}
	})
}

func init() {
	for _, n := range []string{"DecCoins", "Coins", "Coin", "DecCoin"} {
		reg("("+pkgSDK+"."+n+").String", func(in *Interp, fn *ssa.Function, a []Value, pos token.Pos) Value {
			return &SymStr{Desc: "coins"}
		})
	}
}

func init() {
	// JSON text is formatting: modelled as an opaque but concrete placeholder
	reg("encoding/json.Marshal", func(in *Interp, fn *ssa.Function, a []Value, pos token.Pos) Value {
		return tup(sliceOfBytes([]byte(`{"json":"opaque"}`)), Iface{})
	})
}

func init() {
	// regular expressions on concrete strings: use the real engine
	mkRe := func(in *Interp, fn *ssa.Function, a []Value, pos token.Pos) Value {
		re, err := regexp.Compile(strOf(in, a[0]))
		if err != nil {
			in.goPanic(pos, "regexp: Compile: "+err.Error(), nil)
		}
		p := new(Value)
		*p = &Opaque{Kind: "regexp", Data: re}
		return p
	}
	reg("regexp.MustCompile", mkRe)
	reOf := func(in *Interp, v Value) *regexp.Regexp {
		p, ok := v.(*Value)
		if !ok || p == nil {
			in.unsupp("regexp receiver %T", v)
		}
		op, ok := (*p).(*Opaque)
		if !ok || op.Kind != "regexp" {
			in.unsupp("regexp receiver content %T", *p)
		}
		return op.Data.(*regexp.Regexp)
	}
	reg("(*regexp.Regexp).MatchString", func(in *Interp, fn *ssa.Function, a []Value, pos token.Pos) Value {
		return BoolConst(reOf(in, a[0]).MatchString(strOf(in, a[1])))
	})
	reg("(*regexp.Regexp).Match", func(in *Interp, fn *ssa.Function, a []Value, pos token.Pos) Value {
		b, ok := bytesOf(a[1].(Slice).V)
		if !ok {
			in.unsupp("regexp match on symbolic bytes")
		}
		return BoolConst(reOf(in, a[0]).Match(b))
	})
	reg("(*regexp.Regexp).FindStringSubmatch", func(in *Interp, fn *ssa.Function, a []Value, pos token.Pos) Value {
		m := reOf(in, a[0]).FindStringSubmatch(strOf(in, a[1]))
		if m == nil {
			return Slice{}
		}
		out := make([]Value, len(m))
		for i, s := range m {
			out[i] = s
		}
		return Slice{out}
	})
	// codec construction in package initialisers
	reg("github.com/cosmos/cosmos-sdk/codec.NewProtoCodec", func(in *Interp, fn *ssa.Function, a []Value, pos token.Pos) Value {
		p := new(Value)
		*p = zero(fn.Signature.Results().At(0).Type().(*types.Pointer).Elem())
		return p
	})
	reg("github.com/cosmos/cosmos-sdk/codec/types.NewInterfaceRegistry", func(in *Interp, fn *ssa.Function, a []Value, pos token.Pos) Value {
		return opIface("interface-registry", nil)
	})
	reg("github.com/cosmos/cosmos-sdk/codec.NewLegacyAmino", func(in *Interp, fn *ssa.Function, a []Value, pos token.Pos) Value {
		p := new(Value)
		*p = zero(fn.Signature.Results().At(0).Type().(*types.Pointer).Elem())
		return p
	})
}
