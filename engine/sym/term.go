// Package sym: bounded symbolic interpreter for go/ssa emitting SMT-LIB2.
package sym

import (
	"fmt"
	"math/big"
	"strings"
)

// Term is an immutable SMT term of sort Int or Bool.
type Term struct {
	Op   string // "int" "bool" "var" or an SMT operator
	Bool bool   // sort is Bool (else Int)
	I    *big.Int
	B    bool
	Name string
	Args []*Term
	id   int
	size int
}

var termCounter int

func mk(op string, isBool bool, args ...*Term) *Term {
	termCounter++
	sz := 1
	for _, a := range args {
		sz += a.size
	}
	return &Term{Op: op, Bool: isBool, Args: args, id: termCounter, size: sz}
}

func IntConst(v *big.Int) *Term { return &Term{Op: "int", I: new(big.Int).Set(v), size: 1} }
func Int64(v int64) *Term      { return &Term{Op: "int", I: big.NewInt(v), size: 1} }
func Uint64T(v uint64) *Term   { return &Term{Op: "int", I: new(big.Int).SetUint64(v), size: 1} }

var (
	True  = &Term{Op: "bool", Bool: true, B: true, size: 1}
	False = &Term{Op: "bool", Bool: true, B: false, size: 1}
)

func BoolConst(b bool) *Term {
	if b {
		return True
	}
	return False
}

func Var(name string, isBool bool) *Term {
	return &Term{Op: "var", Bool: isBool, Name: name, size: 1}
}

func (t *Term) IsConst() bool { return t.Op == "int" || t.Op == "bool" }

// ConstInt64 returns the value of a constant int term.
func (t *Term) ConstInt64() (int64, bool) {
	if t.Op == "int" && t.I.IsInt64() {
		return t.I.Int64(), true
	}
	return 0, false
}

func (t *Term) String() string {
	switch t.Op {
	case "int":
		if t.I.Sign() < 0 {
			return "(- " + new(big.Int).Neg(t.I).String() + ")"
		}
		return t.I.String()
	case "bool":
		if t.B {
			return "true"
		}
		return "false"
	case "var":
		return t.Name
	}
	var sb strings.Builder
	sb.WriteString("(" + t.Op)
	for _, a := range t.Args {
		sb.WriteString(" " + a.String())
	}
	sb.WriteString(")")
	return sb.String()
}

// ---- constructors with constant folding ----

func Add(a, b *Term) *Term {
	if a.Op == "int" && b.Op == "int" {
		return IntConst(new(big.Int).Add(a.I, b.I))
	}
	if a.Op == "int" && a.I.Sign() == 0 {
		return b
	}
	if b.Op == "int" && b.I.Sign() == 0 {
		return a
	}
	return mk("+", false, a, b)
}

func Sub(a, b *Term) *Term {
	if a.Op == "int" && b.Op == "int" {
		return IntConst(new(big.Int).Sub(a.I, b.I))
	}
	if b.Op == "int" && b.I.Sign() == 0 {
		return a
	}
	if a == b {
		return Int64(0)
	}
	return mk("-", false, a, b)
}

func Neg(a *Term) *Term {
	if a.Op == "int" {
		return IntConst(new(big.Int).Neg(a.I))
	}
	return mk("-", false, a)
}

func Mul(a, b *Term) *Term {
	if a.Op == "int" && b.Op == "int" {
		return IntConst(new(big.Int).Mul(a.I, b.I))
	}
	if a.Op == "int" {
		if a.I.Sign() == 0 {
			return Int64(0)
		}
		if a.I.Cmp(big.NewInt(1)) == 0 {
			return b
		}
	}
	if b.Op == "int" {
		if b.I.Sign() == 0 {
			return Int64(0)
		}
		if b.I.Cmp(big.NewInt(1)) == 0 {
			return a
		}
	}
	return mk("*", false, a, b)
}

// FloorDiv is SMT-LIB `div` (Euclidean: remainder non-negative); callers
// guarantee b != 0.
func FloorDiv(a, b *Term) *Term {
	if a.Op == "int" && b.Op == "int" && b.I.Sign() != 0 {
		q, m := new(big.Int), new(big.Int)
		q.DivMod(a.I, b.I, m) // Euclidean division
		return IntConst(q)
	}
	if b.Op == "int" && b.I.Cmp(big.NewInt(1)) == 0 {
		return a
	}
	return mk("div", false, a, b)
}

func EMod(a, b *Term) *Term {
	if a.Op == "int" && b.Op == "int" && b.I.Sign() != 0 {
		q, m := new(big.Int), new(big.Int)
		q.DivMod(a.I, b.I, m)
		return IntConst(m)
	}
	return mk("mod", false, a, b)
}

// QuoTrunc is Go's integer division (truncation toward zero).
func QuoTrunc(a, b *Term) *Term {
	if a.Op == "int" && b.Op == "int" && b.I.Sign() != 0 {
		return IntConst(new(big.Int).Quo(a.I, b.I))
	}
	zero := Int64(0)
	if b.Op == "int" {
		if b.I.Sign() > 0 {
			return Ite(Ge(a, zero), FloorDiv(a, b), Neg(FloorDiv(Neg(a), b)))
		}
		nb := Neg(b)
		return Ite(Ge(a, zero), Neg(FloorDiv(a, nb)), FloorDiv(Neg(a), nb))
	}
	return Ite(Ge(a, zero),
		Ite(Gt(b, zero), FloorDiv(a, b), Neg(FloorDiv(a, Neg(b)))),
		Ite(Gt(b, zero), Neg(FloorDiv(Neg(a), b)), FloorDiv(Neg(a), Neg(b))))
}

// RemTrunc is Go's % operator.
func RemTrunc(a, b *Term) *Term {
	if a.Op == "int" && b.Op == "int" && b.I.Sign() != 0 {
		return IntConst(new(big.Int).Rem(a.I, b.I))
	}
	return Sub(a, Mul(b, QuoTrunc(a, b)))
}

func Ite(c, a, b *Term) *Term {
	if c.Op == "bool" {
		if c.B {
			return a
		}
		return b
	}
	if a == b {
		return a
	}
	if a.IsConst() && b.IsConst() {
		if a.Bool {
			if a.B == b.B {
				return a
			}
			if a.B {
				return c
			}
			return Not(c)
		}
		if a.I.Cmp(b.I) == 0 {
			return a
		}
	}
	return mk("ite", a.Bool, c, a, b)
}

func Eq(a, b *Term) *Term {
	if a == b {
		return True
	}
	if a.IsConst() && b.IsConst() {
		if a.Bool {
			return BoolConst(a.B == b.B)
		}
		return BoolConst(a.I.Cmp(b.I) == 0)
	}
	if a.Bool {
		if a.Op == "bool" {
			if a.B {
				return b
			}
			return Not(b)
		}
		if b.Op == "bool" {
			if b.B {
				return a
			}
			return Not(a)
		}
	}
	return mk("=", true, a, b)
}

func cmp(op string, a, b *Term, f func(int) bool) *Term {
	if a.Op == "int" && b.Op == "int" {
		return BoolConst(f(a.I.Cmp(b.I)))
	}
	if a == b {
		return BoolConst(f(0))
	}
	return mk(op, true, a, b)
}

func Lt(a, b *Term) *Term { return cmp("<", a, b, func(c int) bool { return c < 0 }) }
func Le(a, b *Term) *Term { return cmp("<=", a, b, func(c int) bool { return c <= 0 }) }
func Gt(a, b *Term) *Term { return cmp(">", a, b, func(c int) bool { return c > 0 }) }
func Ge(a, b *Term) *Term { return cmp(">=", a, b, func(c int) bool { return c >= 0 }) }

func Not(a *Term) *Term {
	if a.Op == "bool" {
		return BoolConst(!a.B)
	}
	if a.Op == "not" {
		return a.Args[0]
	}
	return mk("not", true, a)
}

func And(ts ...*Term) *Term {
	var out []*Term
	for _, t := range ts {
		if t.Op == "bool" {
			if !t.B {
				return False
			}
			continue
		}
		out = append(out, t)
	}
	switch len(out) {
	case 0:
		return True
	case 1:
		return out[0]
	}
	return mk("and", true, out...)
}

func Or(ts ...*Term) *Term {
	var out []*Term
	for _, t := range ts {
		if t.Op == "bool" {
			if t.B {
				return True
			}
			continue
		}
		out = append(out, t)
	}
	switch len(out) {
	case 0:
		return False
	case 1:
		return out[0]
	}
	return mk("or", true, out...)
}

func Implies(a, b *Term) *Term { return Or(Not(a), b) }

// InRange: lo <= t <= hi
func InRange(t *Term, lo, hi *big.Int) *Term {
	return And(Ge(t, IntConst(lo)), Le(t, IntConst(hi)))
}

// Eval evaluates the term under a model (variable name -> value). Missing
// variables default to 0 / false.
func (t *Term) Eval(m map[string]*Term) *Term {
	switch t.Op {
	case "int", "bool":
		return t
	case "var":
		if v, ok := m[t.Name]; ok {
			return v
		}
		if t.Bool {
			return False
		}
		return Int64(0)
	}
	args := make([]*Term, len(t.Args))
	for i, a := range t.Args {
		args[i] = a.Eval(m)
	}
	switch t.Op {
	case "+":
		return Add(args[0], args[1])
	case "-":
		if len(args) == 1 {
			return Neg(args[0])
		}
		return Sub(args[0], args[1])
	case "*":
		return Mul(args[0], args[1])
	case "div":
		if args[1].I.Sign() == 0 {
			return Int64(0)
		}
		return FloorDiv(args[0], args[1])
	case "mod":
		if args[1].I.Sign() == 0 {
			return args[0]
		}
		return EMod(args[0], args[1])
	case "ite":
		return Ite(args[0], args[1], args[2])
	case "=":
		return Eq(args[0], args[1])
	case "<":
		return Lt(args[0], args[1])
	case "<=":
		return Le(args[0], args[1])
	case ">":
		return Gt(args[0], args[1])
	case ">=":
		return Ge(args[0], args[1])
	case "not":
		return Not(args[0])
	case "and":
		return And(args...)
	case "or":
		return Or(args...)
	}
	panic(fmt.Sprintf("Eval: unknown op %s", t.Op))
}

// Vars collects variable names.
func (t *Term) Vars(into map[string]bool) {
	seen := map[*Term]bool{}
	var walk func(*Term)
	walk = func(x *Term) {
		if seen[x] {
			return
		}
		seen[x] = true
		if x.Op == "var" {
			into[x.Name] = x.Bool
		}
		for _, a := range x.Args {
			walk(a)
		}
	}
	walk(t)
}
