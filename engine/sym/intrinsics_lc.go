package sym

import (
	"go/token"

	"golang.org/x/tools/go/ssa"
)

// The tendermint light-client module of ibc-go (store-backed verification of
// headers against trusted consensus states: merkle hashing, voting-power
// tallies, real signature batches) is outside the encoding.  It is replaced by
// its verdict, which the harness declares with vh.LightClient before the call
// (and constructs the native inputs so that the real module agrees; violations
// are replayed natively against the real module).

const lcPkg = "github.com/cosmos/ibc-go/v10/modules/light-clients/07-tendermint"

func init() {
	reg("VH.Native", func(in *Interp, fn *ssa.Function, a []Value, pos token.Pos) Value { return nil })
	reg("VH.LightClient", func(in *Interp, fn *ssa.Function, a []Value, pos token.Pos) Value {
		in.lcVerdict = []*Term{a[0].(*Term), a[1].(*Term)}
		return nil
	})
	reg(lcPkg+".NewLightClientModule", func(in *Interp, fn *ssa.Function, a []Value, pos token.Pos) Value {
		return zero(fn.Signature.Results().At(0).Type())
	})
	verdict := func(in *Interp, i int) *Term {
		if in.lcVerdict == nil {
			in.unsupp("light-client module called without a declared verdict (vh.LightClient)")
		}
		return in.lcVerdict[i]
	}
	reg("("+lcPkg+".LightClientModule).CheckForMisbehaviour", func(in *Interp, fn *ssa.Function, a []Value, pos token.Pos) Value {
		return verdict(in, 0)
	})
	reg("("+lcPkg+".LightClientModule).VerifyClientMessage", func(in *Interp, fn *ssa.Function, a []Value, pos token.Pos) Value {
		if in.E.Branch(verdict(in, 1), "lightclient-verdict@"+in.posOf(pos)) {
			return Iface{}
		}
		return in.sentinelError("lightclient:rejected", "light client rejected the client message")
	})
}
