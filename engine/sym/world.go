package sym

import (
	"fmt"
	"go/token"
	"math/big"
	"time"
)

// World is the mutable chain state visible through an sdk.Context: KV stores
// addressed by store-key identity. CacheContext clones it copy-on-write.
type World struct {
	stores map[*Value]*KV
	parent *World
	Events []Value
	Guard  *Term // non-nil while the harness builds conditionally present cells
}

// KV is one store; a cache context's store is an overlay (own cells, possibly
// tombstones) over the live parent store, flushed key by key on Write.
type KV struct {
	cells  []*Cell
	parent *KV
}

type Cell struct {
	key     []Value
	val     Value
	present *Term // nil => certainly present
	deleted bool  // tombstone in an overlay
}

func (c *Cell) presentT() *Term {
	if c.present == nil {
		return True
	}
	return c.present
}

type CtxData struct {
	W       *World
	Time    Time
	Height  *Term
	ChainID Value
	Extra   map[string]Value
}

func NewWorld() *World { return &World{stores: map[*Value]*KV{}} }

func (w *World) clone() *World {
	nw := &World{stores: map[*Value]*KV{}, parent: w}
	nw.Events = append([]Value{}, w.Events...)
	return nw
}

// commitTo flushes the dirty cells of every overlay store into its parent
// store (only the keys written through the cache context, as cachekv does) and
// empties the overlay, which stays usable.
func (in *Interp) commitWorld(w, parent *World) {
	for k, kv := range w.stores {
		pkv := parent.store(k)
		for _, c := range kv.cells {
			in.kvApply(pkv, c)
		}
		kv.cells = nil
	}
	parent.Events = append([]Value{}, w.Events...)
}

func (w *World) store(key *Value) *KV {
	kv, ok := w.stores[key]
	if !ok {
		kv = &KV{}
		if w.parent != nil {
			kv.parent = w.parent.store(key)
		}
		w.stores[key] = kv
	}
	return kv
}

// ---------------------------------------------------------------- key atoms

type atom struct {
	width int
	t     *Term
}

const timeBytesLen = 29 // len("2006-01-02T15:04:05.000000000")

// atoms converts a byte sequence into order-preserving atoms.
func (in *Interp) atoms(key []Value) []atom {
	var out []atom
	for i := 0; i < len(key); {
		switch b := key[i].(type) {
		case *Term:
			out = append(out, atom{1, b})
			i++
		case TimeByte:
			if b.I != 0 || i+timeBytesLen > len(key) {
				in.unsupp("partial time bytes in store key")
			}
			for j := 0; j < timeBytesLen; j++ {
				tb, ok := key[i+j].(TimeByte)
				if !ok || tb.I != j || tb.T != b.T {
					in.unsupp("partial time bytes in store key")
				}
			}
			out = append(out, atom{timeBytesLen, b.T})
			i += timeBytesLen
		case BEByte:
			if b.I != 0 || i+b.N > len(key) {
				in.unsupp("partial big-endian integer in store key")
			}
			for j := 0; j < b.N; j++ {
				bb, ok := key[i+j].(BEByte)
				if !ok || bb.I != j || bb.T != b.T {
					in.unsupp("partial big-endian integer in store key")
				}
			}
			out = append(out, atom{b.N, b.T})
			i += b.N
		default:
			in.unsupp("store key element of kind %T", key[i])
		}
	}
	return out
}

// FormatTimeConst renders ns-since-epoch as sdk.FormatTimeBytes would.
func formatTimeNs(ns *big.Int) string {
	sec, nsec := new(big.Int), new(big.Int)
	sec.DivMod(ns, big.NewInt(1000000000), nsec)
	t := time.Unix(sec.Int64(), nsec.Int64()).UTC()
	return t.Round(0).Format("2006-01-02T15:04:05.000000000")
}

func parseTimeNs(s string) (*big.Int, bool) {
	t, err := time.Parse("2006-01-02T15:04:05.000000000", s)
	if err != nil {
		return nil, false
	}
	v := big.NewInt(t.Unix())
	v.Mul(v, big.NewInt(1000000000))
	v.Add(v, big.NewInt(int64(t.Nanosecond())))
	return v, true
}

// align makes two atom lists comparable position by position (up to the
// shorter one); it merges runs of concrete bytes facing a wide atom.
func (in *Interp) align(a, b []atom) ([]atom, []atom, int, int) {
	var ra, rb []atom
	i, j := 0, 0
	for i < len(a) && j < len(b) {
		x, y := a[i], b[j]
		if x.width == y.width {
			ra, rb = append(ra, x), append(rb, y)
			i++
			j++
			continue
		}
		// one side wide, other side must supply that many concrete bytes
		wide, narrow, ni := x, b, j
		swap := false
		if y.width > x.width {
			wide, narrow, ni = y, a, i
			swap = true
		}
		if narrow[ni].width != 1 {
			in.unsupp("misaligned symbolic store keys")
		}
		if ni+wide.width > len(narrow) {
			// the narrow key ends inside the wide atom
			in.unsupp("store key ends inside a symbolic segment")
		}
		bs := make([]byte, wide.width)
		for k := 0; k < wide.width; k++ {
			at := narrow[ni+k]
			if at.width != 1 || at.t.Op != "int" {
				in.unsupp("symbolic byte facing a wide key segment")
			}
			bs[k] = byte(at.t.I.Int64())
		}
		var c *Term
		if wide.width == timeBytesLen {
			ns, ok := parseTimeNs(string(bs))
			if !ok {
				in.unsupp("concrete bytes facing a time segment do not parse as time")
			}
			c = IntConst(ns)
		} else {
			c = IntConst(new(big.Int).SetBytes(bs))
		}
		merged := atom{wide.width, c}
		if swap {
			ra, rb = append(ra, merged), append(rb, wide)
			i += wide.width
			j++
		} else {
			ra, rb = append(ra, wide), append(rb, merged)
			i++
			j += wide.width
		}
	}
	return ra, rb, len(a) - i, len(b) - j // remaining atoms on each side
}

// quickCmp compares the leading concrete bytes. decided=false when a
// symbolic element is met before any difference.
func quickCmp(a, b []Value) (decided bool, cmp int) {
	n := len(a)
	if len(b) < n {
		n = len(b)
	}
	for i := 0; i < n; i++ {
		x, ok1 := a[i].(*Term)
		y, ok2 := b[i].(*Term)
		if !ok1 || !ok2 || x.Op != "int" || y.Op != "int" {
			return false, 0
		}
		if c := x.I.Cmp(y.I); c != 0 {
			return true, c
		}
	}
	switch {
	case len(a) < len(b):
		return true, -1
	case len(a) > len(b):
		return true, 1
	}
	return true, 0
}

func (in *Interp) keyEq(a, b []Value) *Term {
	if len(a) != len(b) {
		return False
	}
	if d, c := quickCmp(a, b); d {
		return BoolConst(c == 0)
	}
	ra, rb, _, _ := in.align(in.atoms(a), in.atoms(b))
	var cs []*Term
	for i := range ra {
		c := Eq(ra[i].t, rb[i].t)
		if c.Op == "bool" && !c.B {
			return False
		}
		cs = append(cs, c)
	}
	return And(cs...)
}

// keyLess: a < b in bytewise lexicographic order.
func (in *Interp) keyLess(a, b []Value) *Term {
	if d, c := quickCmp(a, b); d {
		return BoolConst(c < 0)
	}
	ra, rb, remA, remB := in.align(in.atoms(a), in.atoms(b))
	less := False
	eq := True
	for i := range ra {
		less = Or(less, And(eq, Lt(ra[i].t, rb[i].t)))
		eq = And(eq, Eq(ra[i].t, rb[i].t))
		if eq.Op == "bool" && !eq.B {
			return less
		}
	}
	_ = remA
	if remA == 0 && remB > 0 {
		less = Or(less, eq)
	}
	return less
}

func (in *Interp) keyHasPrefix(key, prefix []Value) *Term {
	if len(prefix) > len(key) {
		return False
	}
	return in.keyEq(key[:len(prefix)], prefix)
}

// ---------------------------------------------------------------- KV ops

func sliceArg(v Value) ([]Value, bool) {
	s, ok := v.(Slice)
	if !ok {
		return nil, false
	}
	return s.V, s.V != nil
}

// kvFindOwn: index of the cell with this key among the store's own cells.
func (in *Interp) kvFindOwn(kv *KV, key []Value) int {
	for i, c := range kv.cells {
		if in.E.Branch(in.keyEq(c.key, key), "storekey") {
			return i
		}
	}
	return -1
}

// kvLookup finds the effective cell for key through the overlay chain (nil: absent).
func (in *Interp) kvLookup(kv *KV, key []Value) *Cell {
	for s := kv; s != nil; s = s.parent {
		if i := in.kvFindOwn(s, key); i >= 0 {
			if s.cells[i].deleted {
				return nil
			}
			return s.cells[i]
		}
	}
	return nil
}

func (in *Interp) kvHas(kv *KV, key []Value) *Term {
	c := in.kvLookup(kv, key)
	if c == nil {
		return False
	}
	return c.presentT()
}

func (in *Interp) kvGet(kv *KV, key []Value, pos token.Pos) Value {
	if len(key) == 0 {
		in.goPanic(pos, "key is nil or empty", nil)
	}
	c := in.kvLookup(kv, key)
	if c == nil {
		return Slice{}
	}
	v := DeepCopy(c.val)
	if c.present != nil {
		if sv, ok := v.(Slice); ok {
			return MaybeNil{S: sv, Nil: Not(c.present)}
		}
		if in.E.Branch(c.present, "store-presence") {
			return v
		}
		return Slice{}
	}
	return v
}

// kvApply writes one (possibly tombstone) cell into a store.
func (in *Interp) kvApply(kv *KV, c *Cell) {
	i := in.kvFindOwn(kv, c.key)
	if c.deleted && kv.parent == nil {
		if i >= 0 {
			kv.cells = append(kv.cells[:i:i], kv.cells[i+1:]...)
		}
		return
	}
	if i >= 0 {
		kv.cells[i] = c
		return
	}
	kv.cells = append(kv.cells, c)
}

func (in *Interp) kvSet(kv *KV, key []Value, val Value, pos token.Pos) {
	if len(key) == 0 {
		in.goPanic(pos, "key is nil or empty", nil)
	}
	if s, ok := val.(Slice); ok && s.V == nil {
		in.goPanic(pos, "value is nil", nil)
	}
	in.noSpec("store write")
	k := make([]Value, len(key))
	copy(k, key)
	cell := &Cell{key: k, val: DeepCopy(val)}
	if g := in.World.Guard; g != nil {
		if in.kvLookup(kv, key) != nil {
			in.unsupp("guarded write over an existing store cell")
		}
		cell.present = g
		kv.cells = append(kv.cells, cell)
		return
	}
	in.kvApply(kv, cell)
}

func (in *Interp) kvDelete(kv *KV, key []Value, pos token.Pos) {
	if len(key) == 0 {
		in.goPanic(pos, "key is nil or empty", nil)
	}
	in.noSpec("store delete")
	if in.World.Guard != nil {
		in.unsupp("guarded delete")
	}
	k := make([]Value, len(key))
	copy(k, key)
	in.kvApply(kv, &Cell{key: k, deleted: true})
}

// kvEffective lists the cells visible through the overlay chain.
func (in *Interp) kvEffective(kv *KV) []*Cell {
	if kv.parent == nil {
		return kv.cells
	}
	var out []*Cell
	for _, c := range kv.cells {
		if !c.deleted {
			out = append(out, c)
		}
	}
	for _, pc := range in.kvEffective(kv.parent) {
		shadowed := false
		for _, c := range kv.cells {
			if in.E.Branch(in.keyEq(c.key, pc.key), "storekey") {
				shadowed = true
				break
			}
		}
		if !shadowed {
			out = append(out, pc)
		}
	}
	return out
}

type kvIter struct {
	items []*Cell
	pos   int
	open  bool
}

// validT: some candidate at or after pos is present.
func (it *kvIter) validT() *Term {
	var cs []*Term
	for j := it.pos; j < len(it.items); j++ {
		if it.items[j].present == nil {
			return True
		}
		cs = append(cs, it.items[j].present)
	}
	return Or(cs...)
}

// settle advances pos to the first present candidate (forking on presence);
// returns false when the iterator is exhausted.
func (in *Interp) settle(it *kvIter) bool {
	for it.pos < len(it.items) {
		c := it.items[it.pos]
		if c.present == nil {
			return true
		}
		in.noSpec("iterator over cells with symbolic presence") // iterator state is not in the write log
		if in.E.Branch(c.present, "iter-presence") {
			return true
		}
		it.pos++
	}
	return false
}

// kvRange builds an ordered snapshot of the cells selected by sel.
func (in *Interp) kvRange(kv *KV, sel func(c *Cell) *Term, reverse bool) *kvIter {
	var items []*Cell
	for _, c := range in.kvEffective(kv) {
		if in.E.Branch(sel(c), "iter-select") {
			// insertion by key order
			j := len(items)
			items = append(items, c)
			for j > 0 && in.E.Branch(in.keyLess(c.key, items[j-1].key), "iter-order") {
				items[j] = items[j-1]
				j--
			}
			items[j] = c
		}
	}
	if reverse {
		for i, j := 0, len(items)-1; i < j; i, j = i+1, j-1 {
			items[i], items[j] = items[j], items[i]
		}
	}
	return &kvIter{items: items, open: true}
}

func (in *Interp) kvIterator(kv *KV, start, end Value, reverse bool) *kvIter {
	sk, hasS := sliceArg(start)
	ek, hasE := sliceArg(end)
	return in.kvRange(kv, func(c *Cell) *Term {
		cond := True
		if hasS {
			cond = And(cond, Not(in.keyLess(c.key, sk)))
		}
		if hasE {
			cond = And(cond, in.keyLess(c.key, ek))
		}
		return cond
	}, reverse)
}

func (in *Interp) kvPrefixIterator(kv *KV, prefix Value, reverse bool) *kvIter {
	pk, _ := sliceArg(prefix)
	return in.kvRange(kv, func(c *Cell) *Term { return in.keyHasPrefix(c.key, pk) }, reverse)
}

func (in *Interp) dumpKey(k []Value) string {
	s := ""
	for _, b := range k {
		switch x := b.(type) {
		case *Term:
			if x.Op == "int" {
				s += fmt.Sprintf("%02x", x.I.Int64())
			} else {
				s += "<" + x.String() + ">"
			}
		case TimeByte:
			if x.I == 0 {
				s += "<time " + x.T.String() + ">"
			}
		case BEByte:
			if x.I == 0 {
				s += "<be " + x.T.String() + ">"
			}
		}
	}
	return s
}
