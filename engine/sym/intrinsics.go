package sym

import (
	"fmt"
	"go/token"
	"go/types"
	"math/big"
	"sort"
	"strconv"
	"strings"

	"golang.org/x/tools/go/ssa"
)

type Intrinsic func(in *Interp, fn *ssa.Function, args []Value, pos token.Pos) Value

var intrinsics = map[string]Intrinsic{}

func reg(name string, f Intrinsic) {
	intrinsics[name] = f
}

const (
	vhPkg      = "github.com/cosmos/interchain-security/v7/x/ccv/vh"
	storeTypes = "cosmossdk.io/store/types"
)

func tup(vs ...Value) Value { return Tuple(vs) }

var errorType = types.Universe.Lookup("error").Type()

// ---------------------------------------------------------------- errors

type ErrVal struct {
	Name    string // identity of sentinel errors
	Msg     Value  // string or *SymStr
	Parents []Value
}

func (e *ErrVal) Describe() string {
	s := e.Name
	switch m := e.Msg.(type) {
	case string:
		if s != "" {
			s += ": "
		}
		s += m
	case *SymStr:
		if s != "" {
			s += ": "
		}
		s += m.Desc
	}
	for _, p := range e.Parents {
		if iv, ok := p.(Iface); ok {
			if pe, ok := iv.V.(*ErrVal); ok {
				s += " <- " + pe.Describe()
			}
		}
	}
	return s
}

func errIface(e *ErrVal) Value { return Iface{T: errorType, V: e} }

func (in *Interp) sentinelError(id, name string) Value {
	if v, ok := in.identCache["err:"+id]; ok {
		return v
	}
	v := errIface(&ErrVal{Name: name})
	in.identCache["err:"+id] = v
	return v
}

func isNilIface(v Value) bool {
	iv, ok := v.(Iface)
	return ok && iv.T == nil && iv.V == nil
}

func (in *Interp) errorsIs(err, target Value, depth int) bool {
	if depth > 50 {
		return false
	}
	if isNilIface(err) || isNilIface(target) {
		return isNilIface(err) && isNilIface(target)
	}
	ei, tok := err.(Iface), false
	ti, tok := target.(Iface)
	_ = tok
	if ee, ok := ei.V.(*ErrVal); ok {
		if te, ok := ti.V.(*ErrVal); ok && te == ee {
			return true
		}
		for _, p := range ee.Parents {
			if in.errorsIs(p, target, depth+1) {
				return true
			}
		}
		return false
	}
	// user-defined error types: identity / equality then Unwrap
	if ei.T != nil && ti.T != nil && types.Identical(ei.T, ti.T) {
		if c := in.equals(ei.T, ei.V, ti.V, token.NoPos); c.Op == "bool" && c.B {
			return true
		}
	}
	if m := in.methodOf(ei.T, nil, "Unwrap"); m != nil {
		r := in.callFunction(m, []Value{ei.V}, nil, token.NoPos)
		return in.errorsIs(r, target, depth+1)
	}
	return false
}

// ---------------------------------------------------------------- formatting

// goValue converts a concrete symbolic-engine value into a Go value for fmt.
func (in *Interp) goValue(v Value) (interface{}, bool) {
	switch x := v.(type) {
	case nil:
		return nil, true
	case string:
		return x, true
	case *Term:
		if x.Op == "bool" {
			return x.B, true
		}
		if x.Op == "int" {
			if x.I.IsInt64() {
				return x.I.Int64(), true
			}
			return x.I, true
		}
		return nil, false
	case Iface:
		if x.T == nil {
			return nil, true
		}
		if _, isStr := x.T.Underlying().(*types.Basic); isStr || true {
			// named string / int types print like their underlying value unless
			// they have a String method (then we give up to stay exact)
			if in.methodOf(x.T, nil, "String") != nil || in.methodOf(x.T, nil, "Error") != nil {
				if ev, ok := x.V.(*ErrVal); ok {
					if s, ok := ev.Msg.(string); ok && len(ev.Parents) == 0 {
						return s, true
					}
				}
				return nil, false
			}
		}
		return in.goValue(x.V)
	case Slice:
		b, ok := bytesOf(x.V)
		if ok {
			return b, true
		}
		return nil, false
	case BigInt:
		if x.T != nil && x.T.Op == "int" {
			return x.T.I, true
		}
	}
	return nil, false
}

// onlyStringVerbs reports whether every verb of the format is %s or %v (then
// fmt prints a Stringer / error argument through its method).
func onlyStringVerbs(format string) bool {
	for i := 0; i < len(format); i++ {
		if format[i] != '%' {
			continue
		}
		i++
		if i >= len(format) || (format[i] != 's' && format[i] != 'v' && format[i] != '%') {
			return false
		}
	}
	return true
}

func (in *Interp) sprintf(format string, args []Value) Value {
	var gargs []interface{}
	strVerbs := onlyStringVerbs(format)
	for _, a := range args {
		g, ok := in.goValue(a)
		if !ok && strVerbs {
			if iv, isI := a.(Iface); isI && iv.T != nil {
				if _, isErr := iv.V.(*ErrVal); !isErr {
					if m := in.methodOf(iv.T, nil, "String"); m != nil && m.Blocks != nil {
						if s, isS := in.callFunction(m, []Value{iv.V}, nil, token.NoPos).(string); isS {
							g, ok = s, true
						}
					}
				}
			}
		}
		if !ok {
			return &SymStr{Desc: format}
		}
		gargs = append(gargs, g)
	}
	return fmt.Sprintf(format, gargs...)
}

func variadic(v Value) []Value {
	s, ok := v.(Slice)
	if !ok {
		return nil
	}
	return s.V
}

func strOf(in *Interp, v Value) string {
	switch s := v.(type) {
	case string:
		return s
	case *SymStr:
		in.unsupp("concrete string required, got opaque string %q", s.Desc)
	}
	in.unsupp("concrete string required, got %T", v)
	return ""
}

// ---------------------------------------------------------------- registration

func init() {
	// ---- errors / fmt
	reg("errors.New", func(in *Interp, fn *ssa.Function, a []Value, pos token.Pos) Value {
		return errIface(&ErrVal{Msg: a[0]})
	})
	reg("errors.Is", func(in *Interp, fn *ssa.Function, a []Value, pos token.Pos) Value {
		return BoolConst(in.errorsIs(a[0], a[1], 0))
	})
	reg("errors.Unwrap", func(in *Interp, fn *ssa.Function, a []Value, pos token.Pos) Value {
		if iv, ok := a[0].(Iface); ok {
			if e, ok := iv.V.(*ErrVal); ok && len(e.Parents) > 0 {
				return e.Parents[0]
			}
		}
		return Iface{}
	})
	reg("fmt.Errorf", func(in *Interp, fn *ssa.Function, a []Value, pos token.Pos) Value {
		format := strOf(in, a[0])
		e := &ErrVal{}
		va := variadic(a[1])
		e.Msg = in.sprintfErr(format, va)
		if strings.Contains(format, "%w") {
			for _, x := range va {
				if iv, ok := x.(Iface); ok && iv.T != nil {
					if types.Implements(iv.T, errorType.Underlying().(*types.Interface)) || isErrVal(iv.V) {
						e.Parents = append(e.Parents, x)
					}
				}
			}
		}
		return errIface(e)
	})
	reg("fmt.Sprintf", func(in *Interp, fn *ssa.Function, a []Value, pos token.Pos) Value {
		return in.sprintf(strOf(in, a[0]), variadic(a[1]))
	})
	reg("fmt.Sprint", func(in *Interp, fn *ssa.Function, a []Value, pos token.Pos) Value {
		va := variadic(a[0])
		if len(va) == 1 {
			return in.sprintf("%v", va)
		}
		return &SymStr{Desc: "fmt.Sprint"}
	})
	for _, n := range []string{"fmt.Println", "fmt.Printf", "fmt.Print"} {
		reg(n, func(in *Interp, fn *ssa.Function, a []Value, pos token.Pos) Value {
			return tup(Int64(0), Iface{})
		})
	}
	reg("fmt.Fprintf", func(in *Interp, fn *ssa.Function, a []Value, pos token.Pos) Value {
		return tup(Int64(0), Iface{})
	})
	reg("cosmossdk.io/errors.Register", func(in *Interp, fn *ssa.Function, a []Value, pos token.Pos) Value {
		code, _ := a[1].(*Term).ConstInt64()
		id := fmt.Sprintf("%s/%d", strOf(in, a[0]), code)
		v := errIface(&ErrVal{Name: id, Msg: a[2]})
		return copyErrPtr(fn, v)
	})
	reg("cosmossdk.io/errors.RegisterWithGRPCCode", func(in *Interp, fn *ssa.Function, a []Value, pos token.Pos) Value {
		code, _ := a[1].(*Term).ConstInt64()
		id := fmt.Sprintf("%s/%d", strOf(in, a[0]), code)
		return copyErrPtr(fn, errIface(&ErrVal{Name: id, Msg: a[3]}))
	})
	wrap := func(in *Interp, err Value, msg Value) Value {
		if isNilIface(err) {
			return Iface{}
		}
		return errIface(&ErrVal{Msg: msg, Parents: []Value{err}})
	}
	reg("cosmossdk.io/errors.Wrap", func(in *Interp, fn *ssa.Function, a []Value, pos token.Pos) Value {
		return wrap(in, a[0], a[1])
	})
	reg("cosmossdk.io/errors.Wrapf", func(in *Interp, fn *ssa.Function, a []Value, pos token.Pos) Value {
		if isNilIface(a[0]) {
			return Iface{}
		}
		return wrap(in, a[0], in.sprintfErr(strOf(in, a[1]), variadic(a[2])))
	})
	reg("cosmossdk.io/errors.IsOf", func(in *Interp, fn *ssa.Function, a []Value, pos token.Pos) Value {
		for _, t := range variadic(a[1]) {
			if in.errorsIs(a[0], t, 0) {
				return True
			}
		}
		return False
	})

	// ---- bytes / strings / strconv / sort
	reg("bytes.Equal", func(in *Interp, fn *ssa.Function, a []Value, pos token.Pos) Value {
		x, y := a[0].(Slice).V, a[1].(Slice).V
		if len(x) != len(y) {
			return False
		}
		return in.bytesEq(x, y)
	})
	reg("bytes.Compare", func(in *Interp, fn *ssa.Function, a []Value, pos token.Pos) Value {
		x, y := a[0].(Slice).V, a[1].(Slice).V
		bx, ok1 := bytesOf(x)
		by, ok2 := bytesOf(y)
		if ok1 && ok2 {
			return Int64(int64(strings.Compare(string(bx), string(by))))
		}
		lt := in.keyLess(x, y)
		gt := in.keyLess(y, x)
		return Ite(lt, Int64(-1), Ite(gt, Int64(1), Int64(0)))
	})
	reg("bytes.HasPrefix", func(in *Interp, fn *ssa.Function, a []Value, pos token.Pos) Value {
		return in.keyHasPrefix(a[0].(Slice).V, a[1].(Slice).V)
	})
	regConcrete("strings.TrimSpace", func(s string) string { return strings.TrimSpace(s) })
	regConcrete("strings.ToLower", func(s string) string { return strings.ToLower(s) })
	regConcrete("strings.ToUpper", func(s string) string { return strings.ToUpper(s) })
	reg("strings.HasPrefix", func(in *Interp, fn *ssa.Function, a []Value, pos token.Pos) Value {
		return BoolConst(strings.HasPrefix(strOf(in, a[0]), strOf(in, a[1])))
	})
	reg("strings.HasSuffix", func(in *Interp, fn *ssa.Function, a []Value, pos token.Pos) Value {
		return BoolConst(strings.HasSuffix(strOf(in, a[0]), strOf(in, a[1])))
	})
	reg("strings.Contains", func(in *Interp, fn *ssa.Function, a []Value, pos token.Pos) Value {
		return BoolConst(strings.Contains(strOf(in, a[0]), strOf(in, a[1])))
	})
	reg("strings.Index", func(in *Interp, fn *ssa.Function, a []Value, pos token.Pos) Value {
		return Int64(int64(strings.Index(strOf(in, a[0]), strOf(in, a[1]))))
	})
	reg("strings.LastIndex", func(in *Interp, fn *ssa.Function, a []Value, pos token.Pos) Value {
		return Int64(int64(strings.LastIndex(strOf(in, a[0]), strOf(in, a[1]))))
	})
	reg("strings.EqualFold", func(in *Interp, fn *ssa.Function, a []Value, pos token.Pos) Value {
		return BoolConst(strings.EqualFold(strOf(in, a[0]), strOf(in, a[1])))
	})
	strSlice := func(ss []string) Value {
		out := make([]Value, len(ss))
		for i, s := range ss {
			out[i] = s
		}
		return Slice{out}
	}
	reg("strings.Split", func(in *Interp, fn *ssa.Function, a []Value, pos token.Pos) Value {
		return strSlice(strings.Split(strOf(in, a[0]), strOf(in, a[1])))
	})
	reg("strings.SplitN", func(in *Interp, fn *ssa.Function, a []Value, pos token.Pos) Value {
		n, _ := a[2].(*Term).ConstInt64()
		return strSlice(strings.SplitN(strOf(in, a[0]), strOf(in, a[1]), int(n)))
	})
	reg("strings.Join", func(in *Interp, fn *ssa.Function, a []Value, pos token.Pos) Value {
		var ss []string
		for _, v := range a[0].(Slice).V {
			s, ok := v.(string)
			if !ok {
				return &SymStr{Desc: "strings.Join"}
			}
			ss = append(ss, s)
		}
		return strings.Join(ss, strOf(in, a[1]))
	})
	reg("strconv.Itoa", func(in *Interp, fn *ssa.Function, a []Value, pos token.Pos) Value {
		if c, ok := a[0].(*Term).ConstInt64(); ok {
			return strconv.Itoa(int(c))
		}
		return &SymStr{Desc: "strconv.Itoa(sym)"}
	})
	reg("strconv.FormatUint", func(in *Interp, fn *ssa.Function, a []Value, pos token.Pos) Value {
		t := a[0].(*Term)
		base, _ := a[1].(*Term).ConstInt64()
		if t.Op == "int" {
			return t.I.Text(int(base))
		}
		return &SymStr{Desc: "strconv.FormatUint(sym)"}
	})
	reg("strconv.FormatInt", func(in *Interp, fn *ssa.Function, a []Value, pos token.Pos) Value {
		t := a[0].(*Term)
		base, _ := a[1].(*Term).ConstInt64()
		if t.Op == "int" {
			return t.I.Text(int(base))
		}
		return &SymStr{Desc: "strconv.FormatInt(sym)"}
	})
	reg("strconv.ParseUint", func(in *Interp, fn *ssa.Function, a []Value, pos token.Pos) Value {
		base, _ := a[1].(*Term).ConstInt64()
		bits, _ := a[2].(*Term).ConstInt64()
		v, err := strconv.ParseUint(strOf(in, a[0]), int(base), int(bits))
		if err != nil {
			return tup(Uint64T(v), errIface(&ErrVal{Msg: err.Error()}))
		}
		return tup(Uint64T(v), Iface{})
	})
	reg("strconv.ParseInt", func(in *Interp, fn *ssa.Function, a []Value, pos token.Pos) Value {
		base, _ := a[1].(*Term).ConstInt64()
		bits, _ := a[2].(*Term).ConstInt64()
		v, err := strconv.ParseInt(strOf(in, a[0]), int(base), int(bits))
		if err != nil {
			return tup(Int64(v), errIface(&ErrVal{Msg: err.Error()}))
		}
		return tup(Int64(v), Iface{})
	})
	reg("strconv.Atoi", func(in *Interp, fn *ssa.Function, a []Value, pos token.Pos) Value {
		v, err := strconv.Atoi(strOf(in, a[0]))
		if err != nil {
			return tup(Int64(int64(v)), errIface(&ErrVal{Msg: err.Error()}))
		}
		return tup(Int64(int64(v)), Iface{})
	})
	sortSlice := func(in *Interp, fn *ssa.Function, a []Value, pos token.Pos) Value {
		iv := a[0].(Iface)
		s, ok := iv.V.(Slice)
		if !ok {
			in.unsupp("sort.Slice on %T", iv.V)
		}
		n := len(s.V)
		limit := 12
		if strings.HasSuffix(fn.Name(), "Stable") {
			limit = 20
		}
		if n > limit {
			in.unsupp("sort.Slice of length %d exceeds insertion-sort range %d", n, limit)
		}
		less := a[1]
		// data-flow insertion sort when elements can be swapped with ite terms
		mergeable := n >= 2
		for i := 1; i < n && mergeable; i++ {
			if _, ok := mergeVal(True, s.V[0], s.V[i]); !ok {
				mergeable = false
			}
		}
		if mergeable && !in.NoMerge {
			log := &writeLog{old: map[*Value]Value{}}
			in.specLogs = append(in.specLogs, log)
			in.E.NoFork++
			ovfMark := len(in.E.ovf)
			ok := func() (ok bool) {
				defer func() {
					if r := recover(); r != nil {
						if _, isAbort := r.(*specAbort); isAbort {
							ok = false
							return
						}
						panic(r)
					}
				}()
				for i := 1; i < n; i++ {
					active := True
					for j := i; j > 0; j-- {
						if active.Op == "bool" && !active.B {
							break
						}
						r := in.callValue(less, []Value{Int64(int64(j)), Int64(int64(j - 1))}, pos).(*Term)
						active = And(active, r)
						x, y := s.V[j], s.V[j-1]
						nx, ok1 := mergeVal(active, y, x)
						ny, ok2 := mergeVal(active, x, y)
						if !ok1 || !ok2 {
							panic(&specAbort{"sort elements unmergeable"})
						}
						in.write(&s.V[j], nx)
						in.write(&s.V[j-1], ny)
					}
				}
				return true
			}()
			in.E.NoFork--
			in.specLogs = in.specLogs[:len(in.specLogs)-1]
			if ok {
				return nil
			}
			for p, old := range log.old {
				*p = old
			}
			in.E.ovf = in.E.ovf[:ovfMark]
			in.noSpec("sort comparator forks")
		}
		for i := 1; i < n; i++ {
			for j := i; j > 0; j-- {
				r := in.callValue(less, []Value{Int64(int64(j)), Int64(int64(j - 1))}, pos).(*Term)
				if !in.E.Branch(r, "sort-less@"+in.posOf(pos)) {
					break
				}
				x, y := s.V[j], s.V[j-1]
				in.write(&s.V[j], y)
				in.write(&s.V[j-1], x)
			}
		}
		return nil
	}
	reg("sort.Slice", sortSlice)
	reg("sort.SliceStable", sortSlice)
	reg("sort.Strings", func(in *Interp, fn *ssa.Function, a []Value, pos token.Pos) Value {
		s := a[0].(Slice)
		ss := make([]string, len(s.V))
		for i, v := range s.V {
			ss[i] = strOf(in, v)
		}
		sort.Strings(ss)
		for i := range ss {
			in.write(&s.V[i], ss[i])
		}
		return nil
	})

	// ---- sync: single-threaded model
	for _, n := range []string{"(*sync.Mutex).Lock", "(*sync.Mutex).Unlock", "(*sync.RWMutex).Lock", "(*sync.RWMutex).Unlock", "(*sync.RWMutex).RLock", "(*sync.RWMutex).RUnlock"} {
		reg(n, func(in *Interp, fn *ssa.Function, a []Value, pos token.Pos) Value { return nil })
	}

	// ---- encoding/binary
	reg("(encoding/binary.bigEndian).PutUint64", func(in *Interp, fn *ssa.Function, a []Value, pos token.Pos) Value {
		in.putBE(a[1].(Slice), a[2].(*Term), 8, pos)
		return nil
	})
	reg("(encoding/binary.bigEndian).PutUint32", func(in *Interp, fn *ssa.Function, a []Value, pos token.Pos) Value {
		in.putBE(a[1].(Slice), a[2].(*Term), 4, pos)
		return nil
	})
	reg("(encoding/binary.bigEndian).Uint64", func(in *Interp, fn *ssa.Function, a []Value, pos token.Pos) Value {
		return in.getBE(a[1].(Slice), 8, pos)
	})
	reg("(encoding/binary.bigEndian).Uint32", func(in *Interp, fn *ssa.Function, a []Value, pos token.Pos) Value {
		return in.getBE(a[1].(Slice), 4, pos)
	})
	reg(pkgSDK+".Uint64ToBigEndian", func(in *Interp, fn *ssa.Function, a []Value, pos token.Pos) Value {
		s := Slice{make([]Value, 8)}
		in.putBE(s, a[0].(*Term), 8, pos)
		return s
	})
	reg(pkgSDK+".BigEndianToUint64", func(in *Interp, fn *ssa.Function, a []Value, pos token.Pos) Value {
		s := a[0].(Slice)
		if len(s.V) == 0 {
			return Int64(0)
		}
		return in.getBE(s, 8, pos)
	})
}

func isErrVal(v Value) bool { _, ok := v.(*ErrVal); return ok }

// errorsmod.Register returns *Error (a pointer); model as the error iface
// wrapped so that both `error` and `*Error` uses work: we return the iface
// itself when the declared result is an interface, else a pointer cell.
func copyErrPtr(fn *ssa.Function, v Value) Value {
	return v.(Iface).V
}

func (in *Interp) sprintfErr(format string, args []Value) Value {
	f := strings.ReplaceAll(format, "%w", "%v")
	var gargs []interface{}
	for _, a := range args {
		if iv, ok := a.(Iface); ok {
			if e, ok := iv.V.(*ErrVal); ok {
				gargs = append(gargs, e.Describe())
				continue
			}
		}
		g, ok := in.goValue(a)
		if !ok {
			return &SymStr{Desc: format}
		}
		gargs = append(gargs, g)
	}
	return fmt.Sprintf(f, gargs...)
}

func regConcrete(name string, f func(string) string) {
	reg(name, func(in *Interp, fn *ssa.Function, a []Value, pos token.Pos) Value {
		switch s := a[0].(type) {
		case string:
			return f(s)
		case *SymStr:
			return s
		}
		in.unsupp("%s on %T", name, a[0])
		return nil
	})
}

func (in *Interp) bytesEq(x, y []Value) *Term {
	// marshalled blobs compare by content
	if len(x) == 1 && len(y) == 1 {
		bx, okx := x[0].(Blob)
		by, oky := y[0].(Blob)
		if okx || oky {
			if !(okx && oky) {
				return False
			}
			return in.deepEq(bx.V, by.V)
		}
	}
	if d, c := quickCmp(x, y); d {
		return BoolConst(c == 0)
	}
	return in.keyEq(x, y)
}

func (in *Interp) putBE(dst Slice, v *Term, n int, pos token.Pos) {
	if len(dst.V) < n {
		in.goPanic(pos, "index out of range (PutUint)", nil)
	}
	if v.Op == "int" {
		mod := new(big.Int).Lsh(big.NewInt(1), uint(8*n))
		u := new(big.Int).Mod(v.I, mod)
		bs := u.FillBytes(make([]byte, n))
		for i := 0; i < n; i++ {
			in.write(&dst.V[i], Int64(int64(bs[i])))
		}
		return
	}
	// symbolic: value must be non-negative (unsigned reinterpretation otherwise)
	in.E.AddOverflowOb(Ge(v, Int64(0)), in.posOf(pos)+"(big-endian of negative)")
	for i := 0; i < n; i++ {
		in.write(&dst.V[i], BEByte{T: v, I: i, N: n})
	}
}

func (in *Interp) getBE(src Slice, n int, pos token.Pos) Value {
	if len(src.V) < n {
		in.goPanic(pos, "index out of range (Uint)", nil)
	}
	if b, ok := src.V[0].(BEByte); ok && b.I == 0 && b.N == n {
		all := true
		for i := 0; i < n; i++ {
			bb, ok := src.V[i].(BEByte)
			if !ok || bb.T != b.T || bb.I != i {
				all = false
			}
		}
		if all {
			return b.T
		}
	}
	acc := Int64(0)
	for i := 0; i < n; i++ {
		t, ok := src.V[i].(*Term)
		if !ok {
			in.unsupp("big-endian decode of mixed symbolic bytes")
		}
		acc = Add(Mul(acc, Int64(256)), t)
	}
	return acc
}

// summarisedMethod dispatches interface method calls whose dynamic value is
// an engine summary (errors, big numbers, time).
func (in *Interp) summarisedMethod(recv Iface, name string) (Value, bool) {
	switch v := recv.V.(type) {
	case *ErrVal:
		switch name {
		case "Error":
			return &BoundIntrinsic{Recv: v, Name: "Error", Fn: func(in *Interp, a []Value, pos token.Pos) Value {
				e := a[0].(*ErrVal)
				if s, ok := e.Msg.(string); ok && len(e.Parents) == 0 && e.Name == "" {
					return s
				}
				return &SymStr{Desc: e.Describe()}
			}}, true
		case "Unwrap":
			return &BoundIntrinsic{Recv: v, Name: "Unwrap", Fn: func(in *Interp, a []Value, pos token.Pos) Value {
				e := a[0].(*ErrVal)
				if len(e.Parents) > 0 {
					return e.Parents[0]
				}
				return Iface{}
			}}, true
		}
	}
	return nil, false
}
