package sym

import (
	"go/token"
	"math/big"

	"golang.org/x/tools/go/ssa"
)

func (in *Interp) inputTerm(name string, isBool bool, lo, hi *big.Int) *Term {
	if in.Concrete != nil {
		s, ok := in.Concrete[sanitize(name)]
		if isBool {
			return BoolConst(ok && s == "true")
		}
		v := big.NewInt(0)
		if ok {
			if p, ok2 := new(big.Int).SetString(s, 10); ok2 {
				v = p
			}
		}
		return IntConst(v)
	}
	t := in.E.Input(name, isBool)
	if !isBool && lo != nil {
		in.E.Assume(InRange(t, lo, hi))
	}
	return t
}

func init() {
	V := "VH."
	intIn := func(bits int, signed bool) Intrinsic {
		return func(in *Interp, fn *ssa.Function, a []Value, pos token.Pos) Value {
			lo, hi := rangeOf(bits, signed)
			return in.inputTerm(strOf(in, a[0]), false, lo, hi)
		}
	}
	reg(V+"Int64", intIn(64, true))
	reg(V+"Int", intIn(64, true))
	reg(V+"Uint64", intIn(64, false))
	reg(V+"Uint32", intIn(32, false))
	reg(V+"Byte", intIn(8, false))
	reg(V+"Bool", func(in *Interp, fn *ssa.Function, a []Value, pos token.Pos) Value {
		return in.inputTerm(strOf(in, a[0]), true, nil, nil)
	})
	reg(V+"BigInt", func(in *Interp, fn *ssa.Function, a []Value, pos token.Pos) Value {
		return BigInt{in.inputTerm(strOf(in, a[0]), false, nil, nil)}
	})
	reg(V+"Dec", func(in *Interp, fn *ssa.Function, a []Value, pos token.Pos) Value {
		return Dec{in.inputTerm(strOf(in, a[0]), false, nil, nil)}
	})
	reg(V+"Time", func(in *Interp, fn *ssa.Function, a []Value, pos token.Pos) Value {
		lo, hi := rangeOf(64, true)
		return Time{in.inputTerm(strOf(in, a[0]), false, lo, hi)}
	})
	reg(V+"Bound", func(in *Interp, fn *ssa.Function, a []Value, pos token.Pos) Value {
		if v, ok := in.Bounds[strOf(in, a[0])]; ok {
			return Int64(v)
		}
		return a[1]
	})
	reg(V+"Assume", func(in *Interp, fn *ssa.Function, a []Value, pos token.Pos) Value {
		in.E.Assume(a[0].(*Term))
		return nil
	})
	reg(V+"Assert", func(in *Interp, fn *ssa.Function, a []Value, pos token.Pos) Value {
		in.E.Assert(a[0].(*Term), strOf(in, a[1]))
		return nil
	})
	reg(V+"Reach", func(in *Interp, fn *ssa.Function, a []Value, pos token.Pos) Value {
		in.E.Reach(strOf(in, a[0]))
		return nil
	})
	reg(V+"Info", func(in *Interp, fn *ssa.Function, a []Value, pos token.Pos) Value {
		if s, ok := a[0].(string); ok {
			in.E.Info(s)
		}
		return nil
	})
	reg(V+"Show", func(in *Interp, fn *ssa.Function, a []Value, pos token.Pos) Value {
		if t, ok := a[1].(*Term); ok {
			in.E.Show(strOf(in, a[0]), t)
		}
		return nil
	})
	reg(V+"ShowBool", func(in *Interp, fn *ssa.Function, a []Value, pos token.Pos) Value {
		if t, ok := a[1].(*Term); ok {
			in.E.Show(strOf(in, a[0]), t)
		}
		return nil
	})
	reg(V+"InfoErr", func(in *Interp, fn *ssa.Function, a []Value, pos token.Pos) Value {
		in.E.Info("error: " + in.describe(a[0]))
		return nil
	})
	reg(V+"Symbolic", func(in *Interp, fn *ssa.Function, a []Value, pos token.Pos) Value { return BoolConst(in.Concrete == nil) })
	reg(V+"And", func(in *Interp, fn *ssa.Function, a []Value, pos token.Pos) Value { return And(a[0].(*Term), a[1].(*Term)) })
	reg(V+"Or", func(in *Interp, fn *ssa.Function, a []Value, pos token.Pos) Value { return Or(a[0].(*Term), a[1].(*Term)) })
	reg(V+"Implies", func(in *Interp, fn *ssa.Function, a []Value, pos token.Pos) Value {
		return Implies(a[0].(*Term), a[1].(*Term))
	})
	reg(V+"Iff", func(in *Interp, fn *ssa.Function, a []Value, pos token.Pos) Value { return Eq(a[0].(*Term), a[1].(*Term)) })
	reg(V+"IteInt64", func(in *Interp, fn *ssa.Function, a []Value, pos token.Pos) Value {
		return Ite(a[0].(*Term), a[1].(*Term), a[2].(*Term))
	})
	reg(V+"IteBool", func(in *Interp, fn *ssa.Function, a []Value, pos token.Pos) Value {
		return Ite(a[0].(*Term), a[1].(*Term), a[2].(*Term))
	})
	reg(V+"ConcretizeInt", func(in *Interp, fn *ssa.Function, a []Value, pos token.Pos) Value {
		t := a[0].(*Term)
		if t.IsConst() {
			return t
		}
		lo, _ := a[1].(*Term).ConstInt64()
		hi, _ := a[2].(*Term).ConstInt64()
		for v := lo; v <= hi; v++ {
			if in.E.Branch(Eq(t, Int64(v)), "concretize") {
				return Int64(v)
			}
		}
		panic(&pathEnd{kind: "infeasible"})
	})
	reg(V+"Guard", func(in *Interp, fn *ssa.Function, a []Value, pos token.Pos) Value {
		c := a[0].(*Term)
		if in.Concrete != nil || c.Op == "bool" {
			return c
		}
		if in.World.Guard != nil {
			in.unsupp("nested vh.Guard")
		}
		in.World.Guard = c
		return True
	})
	reg(V+"EndGuard", func(in *Interp, fn *ssa.Function, a []Value, pos token.Pos) Value {
		in.World.Guard = nil
		return nil
	})
	reg(V+"NewCtx", func(in *Interp, fn *ssa.Function, a []Value, pos token.Pos) Value {
		cd := &CtxData{W: in.World, Time: a[0].(Time), Height: a[1].(*Term), ChainID: a[2]}
		return ctxVal(cd)
	})
	reg(V+"NewCodec", func(in *Interp, fn *ssa.Function, a []Value, pos token.Pos) Value { return opIface("codec", nil) })
	reg(V+"Sprintf", func(in *Interp, fn *ssa.Function, a []Value, pos token.Pos) Value {
		return in.sprintf(strOf(in, a[0]), variadic(a[1]))
	})
}
