package sym

import (
	"bytes"
	"encoding/json"
	"fmt"
	"go/token"
	"go/types"
	"math/big"
	"reflect"
	"sort"
	"strings"

	"golang.org/x/tools/go/ssa"
)

// encoding/json.Unmarshal on concrete bytes: the real decoder parses the text,
// the result is mapped onto the symbolic-world value by static type (strings,
// integers, bools, json.RawMessage, maps with string keys, structs by json
// tag, slices, pointers).  Symbolic input bytes are unsupported.

func jsonFieldName(st *types.Struct, i int) (string, bool) {
	f := st.Field(i)
	if !f.Exported() {
		return "", false
	}
	tag := reflect.StructTag(st.Tag(i)).Get("json")
	if tag == "-" {
		return "", false
	}
	name := strings.Split(tag, ",")[0]
	if name == "" {
		name = f.Name()
	}
	return name, true
}

func (in *Interp) jsonToValue(raw json.RawMessage, t types.Type, cur Value) (Value, error) {
	if isNamed(t, "encoding/json", "RawMessage") {
		return sliceOfBytes(append([]byte{}, raw...)), nil
	}
	isNull := string(bytes.TrimSpace(raw)) == "null"
	switch u := t.Underlying().(type) {
	case *types.Basic:
		if isNull {
			return cur, nil
		}
		switch {
		case u.Info()&types.IsString != 0:
			var s string
			if err := json.Unmarshal(raw, &s); err != nil {
				return nil, err
			}
			return s, nil
		case u.Info()&types.IsBoolean != 0:
			var b bool
			if err := json.Unmarshal(raw, &b); err != nil {
				return nil, err
			}
			return BoolConst(b), nil
		case u.Info()&types.IsUnsigned != 0:
			var n uint64
			if err := json.Unmarshal(raw, &n); err != nil {
				return nil, err
			}
			return IntConst(new(big.Int).SetUint64(n)), nil
		case u.Info()&types.IsInteger != 0:
			var n int64
			if err := json.Unmarshal(raw, &n); err != nil {
				return nil, err
			}
			return Int64(n), nil
		}
	case *types.Map:
		if isNull {
			return cur, nil
		}
		if b, ok := u.Key().Underlying().(*types.Basic); !ok || b.Info()&types.IsString == 0 {
			break
		}
		var m map[string]json.RawMessage
		if err := json.Unmarshal(raw, &m); err != nil {
			return nil, err
		}
		out, _ := cur.(*Map)
		if out == nil {
			out = NewMap()
		}
		keys := make([]string, 0, len(m))
		for k := range m {
			keys = append(keys, k)
		}
		sort.Strings(keys)
		for _, k := range keys {
			v, err := in.jsonToValue(m[k], u.Elem(), zero(u.Elem()))
			if err != nil {
				return nil, err
			}
			out.Set(k, v)
		}
		return out, nil
	case *types.Struct:
		if isNull {
			return cur, nil
		}
		var m map[string]json.RawMessage
		if err := json.Unmarshal(raw, &m); err != nil {
			return nil, err
		}
		out, _ := copyVal(cur).(Struct)
		if out == nil {
			out = zero(t).(Struct)
		}
		for i := 0; i < u.NumFields(); i++ {
			name, ok := jsonFieldName(u, i)
			if !ok {
				continue
			}
			rv, found := m[name]
			if !found {
				for k, v := range m {
					if strings.EqualFold(k, name) {
						rv, found = v, true
					}
				}
			}
			if !found {
				continue
			}
			v, err := in.jsonToValue(rv, u.Field(i).Type(), out[i])
			if err != nil {
				return nil, err
			}
			out[i] = v
		}
		return out, nil
	case *types.Slice:
		if isNull {
			return Slice{}, nil
		}
		var l []json.RawMessage
		if err := json.Unmarshal(raw, &l); err != nil {
			return nil, err
		}
		vs := make([]Value, len(l))
		for i, r := range l {
			v, err := in.jsonToValue(r, u.Elem(), zero(u.Elem()))
			if err != nil {
				return nil, err
			}
			vs[i] = v
		}
		return Slice{vs}, nil
	case *types.Pointer:
		if isNull {
			return (*Value)(nil), nil
		}
		v, err := in.jsonToValue(raw, u.Elem(), zero(u.Elem()))
		if err != nil {
			return nil, err
		}
		p := new(Value)
		*p = v
		return p, nil
	}
	in.unsupp("json.Unmarshal into %v", t)
	return nil, nil
}

func init() {
	reg("encoding/json.Unmarshal", func(in *Interp, fn *ssa.Function, a []Value, pos token.Pos) Value {
		s, ok := a[0].(Slice)
		if !ok {
			in.unsupp("json.Unmarshal of %T", a[0])
		}
		b, ok := bytesOf(s.V)
		if !ok {
			in.unsupp("json.Unmarshal of symbolic bytes")
		}
		iv, ok := a[1].(Iface)
		if !ok || iv.T == nil {
			return errIface(&ErrVal{Msg: "json: Unmarshal(nil)"})
		}
		pt, ok := iv.T.Underlying().(*types.Pointer)
		p, ok2 := iv.V.(*Value)
		if !ok || !ok2 || p == nil {
			return errIface(&ErrVal{Msg: "json: Unmarshal(non-pointer)"})
		}
		if !json.Valid(b) {
			return errIface(&ErrVal{Msg: "json: invalid syntax"})
		}
		v, err := in.jsonToValue(json.RawMessage(b), pt.Elem(), *p)
		if err != nil {
			return errIface(&ErrVal{Msg: fmt.Sprintf("json: %v", err)})
		}
		in.write(p, v)
		return Iface{}
	})
}

func init() {
	// strings.Builder: the unsafe self-pointer check and the zero-copy String()
	reg("(*strings.Builder).copyCheck", func(in *Interp, fn *ssa.Function, a []Value, pos token.Pos) Value { return nil })
	reg("(*strings.Builder).String", func(in *Interp, fn *ssa.Function, a []Value, pos token.Pos) Value {
		p, ok := a[0].(*Value)
		if !ok || p == nil {
			in.unsupp("strings.Builder receiver %T", a[0])
		}
		st, ok := (*p).(Struct)
		if !ok || len(st) < 2 {
			in.unsupp("strings.Builder content %T", *p)
		}
		buf, _ := st[1].(Slice)
		if b, ok := bytesOf(buf.V); ok {
			return string(b)
		}
		return &SymStr{Desc: "strings.Builder(symbolic)"}
	})
}

func init() {
	// channeltypes.Acknowledgement.Success compares reflect types of the oneof
	reg("(github.com/cosmos/ibc-go/v10/modules/core/04-channel/types.Acknowledgement).Success", func(in *Interp, fn *ssa.Function, a []Value, pos token.Pos) Value {
		st, ok := a[0].(Struct)
		if !ok || len(st) < 1 {
			in.unsupp("Acknowledgement receiver %T", a[0])
		}
		iv, _ := st[0].(Iface)
		if iv.T == nil {
			return False
		}
		if pt, ok := iv.T.(*types.Pointer); ok {
			if n, ok := pt.Elem().(*types.Named); ok && n.Obj().Name() == "Acknowledgement_Result" {
				return True
			}
		}
		return False
	})
}
