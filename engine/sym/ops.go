package sym

import (
	"fmt"
	"go/token"
	"go/types"
	"math/big"
	"unicode/utf8"

	"golang.org/x/tools/go/ssa"
)

func intInfo(t types.Type) (bits int, signed bool, ok bool) {
	b, isB := t.Underlying().(*types.Basic)
	if !isB || b.Info()&types.IsInteger == 0 {
		return 0, false, false
	}
	switch b.Kind() {
	case types.Int, types.Int64, types.UntypedInt, types.UntypedRune:
		return 64, true, true
	case types.Int8:
		return 8, true, true
	case types.Int16:
		return 16, true, true
	case types.Int32:
		return 32, true, true
	case types.Uint, types.Uint64, types.Uintptr:
		return 64, false, true
	case types.Uint8:
		return 8, false, true
	case types.Uint16:
		return 16, false, true
	case types.Uint32:
		return 32, false, true
	}
	return 0, false, false
}

func rangeOf(bits int, signed bool) (*big.Int, *big.Int) {
	one := big.NewInt(1)
	if signed {
		hi := new(big.Int).Lsh(one, uint(bits-1))
		lo := new(big.Int).Neg(hi)
		hi.Sub(hi, one)
		return lo, hi
	}
	hi := new(big.Int).Lsh(one, uint(bits))
	hi.Sub(hi, one)
	return big.NewInt(0), hi
}

func wrapBig(v *big.Int, bits int, signed bool) *big.Int {
	mod := new(big.Int).Lsh(big.NewInt(1), uint(bits))
	r := new(big.Int).Mod(v, mod) // non-negative
	if signed {
		half := new(big.Int).Lsh(big.NewInt(1), uint(bits-1))
		if r.Cmp(half) >= 0 {
			r.Sub(r, mod)
		}
	}
	return r
}

// fit makes the result of an arithmetic operation respect the Go type:
// constants wrap exactly; symbolic results get a no-overflow obligation.
func (in *Interp) fit(r *Term, t types.Type, pos token.Pos) *Term {
	bits, signed, ok := intInfo(t)
	if !ok {
		return r
	}
	if r.Op == "int" {
		return IntConst(wrapBig(r.I, bits, signed))
	}
	lo, hi := rangeOf(bits, signed)
	in.E.AddOverflowOb(InRange(r, lo, hi), in.posOf(pos))
	return r
}

func (in *Interp) unop(instr *ssa.UnOp, x Value) Value {
	switch instr.Op {
	case token.MUL: // load
		p, ok := x.(*Value)
		if !ok {
			in.unsupp("load through %T at %s", x, in.posOf(instr.Pos()))
		}
		if p == nil {
			in.goPanic(instr.Pos(), "nil pointer dereference", nil)
		}
		return load(p)
	case token.NOT:
		return Not(x.(*Term))
	case token.SUB:
		if t, ok := x.(*Term); ok {
			return in.fit(Neg(t), instr.Type(), instr.Pos())
		}
		return Junk{"float neg"}
	case token.XOR:
		t := x.(*Term)
		bits, signed, _ := intInfo(instr.Type())
		if signed {
			return Sub(Neg(t), Int64(1))
		}
		_, hi := rangeOf(bits, false)
		return Sub(IntConst(hi), t)
	case token.ARROW:
		in.unsupp("channel receive at %s", in.posOf(instr.Pos()))
	}
	in.unsupp("unop %v", instr.Op)
	return nil
}

func isPow2Minus1(v *big.Int) (int, bool) {
	if v.Sign() < 0 {
		return 0, false
	}
	n := new(big.Int).Add(v, big.NewInt(1))
	if n.BitLen() > 0 && new(big.Int).And(n, v).Sign() == 0 {
		return n.BitLen() - 1, true
	}
	return 0, false
}

func (in *Interp) binop(op token.Token, xt types.Type, x, y Value, pos token.Pos, resT types.Type) Value {
	// comparison with nil etc. of non-scalar kinds
	switch op {
	case token.EQL:
		if _, isT := x.(*Term); !isT {
			return in.equals(xt, x, y, pos)
		}
	case token.NEQ:
		if _, isT := x.(*Term); !isT {
			return Not(in.equals(xt, x, y, pos))
		}
	}
	switch a := x.(type) {
	case *Term:
		b, ok := y.(*Term)
		if !ok {
			in.unsupp("binop %v on Term and %T", op, y)
		}
		if a.Bool {
			switch op {
			case token.EQL:
				return Eq(a, b)
			case token.NEQ:
				return Not(Eq(a, b))
			case token.AND:
				return And(a, b)
			case token.OR:
				return Or(a, b)
			}
			in.unsupp("bool binop %v", op)
		}
		switch op {
		case token.ADD:
			return in.fit(Add(a, b), resT, pos)
		case token.SUB:
			return in.fit(Sub(a, b), resT, pos)
		case token.MUL:
			return in.fit(Mul(a, b), resT, pos)
		case token.QUO:
			in.divCheck(b, pos)
			return in.fit(in.E.DivTrunc(a, b), resT, pos)
		case token.REM:
			in.divCheck(b, pos)
			return Sub(a, Mul(b, in.E.DivTrunc(a, b)))
		case token.EQL:
			return Eq(a, b)
		case token.NEQ:
			return Not(Eq(a, b))
		case token.LSS:
			return Lt(a, b)
		case token.LEQ:
			return Le(a, b)
		case token.GTR:
			return Gt(a, b)
		case token.GEQ:
			return Ge(a, b)
		case token.SHL:
			if c, ok := b.ConstInt64(); ok {
				if c >= 512 {
					return Int64(0)
				}
				return in.fit(Mul(a, IntConst(new(big.Int).Lsh(big.NewInt(1), uint(c)))), resT, pos)
			}
			in.unsupp("shift by symbolic amount at %s", in.posOf(pos))
		case token.SHR:
			if c, ok := b.ConstInt64(); ok {
				if c >= 512 {
					c = 512
				}
				return FloorDiv(a, IntConst(new(big.Int).Lsh(big.NewInt(1), uint(c))))
			}
			in.unsupp("shift by symbolic amount at %s", in.posOf(pos))
		case token.AND, token.OR, token.XOR, token.AND_NOT:
			bits, signed, _ := intInfo(resT)
			if a.Op == "int" && b.Op == "int" {
				// two's complement on the declared width
				mod := new(big.Int).Lsh(big.NewInt(1), uint(bits))
				ua := new(big.Int).Mod(a.I, mod)
				ub := new(big.Int).Mod(b.I, mod)
				r := new(big.Int)
				switch op {
				case token.AND:
					r.And(ua, ub)
				case token.OR:
					r.Or(ua, ub)
				case token.XOR:
					r.Xor(ua, ub)
				case token.AND_NOT:
					r.AndNot(ua, ub)
				}
				return IntConst(wrapBig(r, bits, signed))
			}
			if op == token.AND {
				sym, c := a, b
				if a.Op == "int" {
					sym, c = b, a
				}
				if c.Op == "int" {
					if k, ok := isPow2Minus1(c.I); ok {
						// x & (2^k-1) == x mod 2^k for every two's complement x
						return EMod(sym, IntConst(new(big.Int).Lsh(big.NewInt(1), uint(k))))
					}
				}
			}
			in.unsupp("bitwise %v on symbolic operands at %s", op, in.posOf(pos))
		}
		in.unsupp("int binop %v", op)
	case string:
		switch b := y.(type) {
		case string:
			switch op {
			case token.ADD:
				return a + b
			case token.LSS:
				return BoolConst(a < b)
			case token.LEQ:
				return BoolConst(a <= b)
			case token.GTR:
				return BoolConst(a > b)
			case token.GEQ:
				return BoolConst(a >= b)
			}
		case *SymStr:
			if op == token.ADD {
				return &SymStr{Desc: a + b.Desc}
			}
		}
		in.unsupp("string binop %v with %T at %s", op, y, in.posOf(pos))
	case *SymStr:
		if op == token.ADD {
			switch b := y.(type) {
			case string:
				return &SymStr{Desc: a.Desc + b}
			case *SymStr:
				return &SymStr{Desc: a.Desc + b.Desc}
			}
		}
		in.unsupp("opaque string binop %v at %s", op, in.posOf(pos))
	case Junk:
		return Junk{"float arith"}
	}
	if _, ok := y.(Junk); ok {
		return Junk{"float arith"}
	}
	in.unsupp("binop %v on %T at %s", op, x, in.posOf(pos))
	return nil
}

func (in *Interp) divCheck(b *Term, pos token.Pos) {
	if b.Op == "int" {
		if b.I.Sign() == 0 {
			in.goPanic(pos, "integer divide by zero", nil)
		}
		return
	}
	if in.E.Branch(Eq(b, Int64(0)), "divzero@"+in.posOf(pos)) {
		in.goPanic(pos, "integer divide by zero", nil)
	}
}

// equals implements == for every comparable kind, as a (possibly symbolic) bool.
func (in *Interp) equals(t types.Type, x, y Value, pos token.Pos) *Term {
	switch a := x.(type) {
	case *Term:
		if b, ok := y.(*Term); ok {
			return Eq(a, b)
		}
	case string:
		switch b := y.(type) {
		case string:
			return BoolConst(a == b)
		}
		in.unsupp("comparison of string with opaque string at %s", in.posOf(pos))
	case *SymStr:
		if b, ok := y.(*SymStr); ok && a == b {
			return True
		}
		in.unsupp("comparison of opaque strings (%s) at %s", a.Desc, in.posOf(pos))
	case *Value:
		b, _ := y.(*Value)
		return BoolConst(a == b)
	case MaybeNil:
		if b, ok := y.(Slice); ok && b.V == nil {
			return a.Nil
		}
	case Slice:
		// only comparison with nil is legal
		if b, ok := y.(Slice); ok && b.V == nil {
			return BoolConst(a.V == nil)
		}
		if a.V == nil {
			if m, ok := y.(MaybeNil); ok {
				return m.Nil
			}
			return BoolConst(y.(Slice).V == nil)
		}
	case *Map:
		b, _ := y.(*Map)
		return BoolConst(a == b)
	case *ssa.Function:
		if a == nil {
			switch b := y.(type) {
			case *ssa.Function:
				return BoolConst(b == nil)
			case *Closure:
				return BoolConst(b == nil)
			case *BoundIntrinsic:
				return BoolConst(b == nil)
			}
		}
		if b, ok := y.(*ssa.Function); ok && b == nil {
			return False
		}
	case *Closure:
		if b, ok := y.(*ssa.Function); ok && b == nil {
			return BoolConst(a == nil)
		}
	case *Opaque:
		b, _ := y.(*Opaque)
		return BoolConst(a == b)
	case Iface:
		b, ok := y.(Iface)
		if !ok {
			break
		}
		if a.T == nil || b.T == nil {
			return BoolConst(a.T == nil && b.T == nil && a.V == nil && b.V == nil)
		}
		if !types.Identical(a.T, b.T) {
			return False
		}
		return in.equals(a.T, a.V, b.V, pos)
	case Struct:
		b := y.(Struct)
		var cs []*Term
		st, _ := t.Underlying().(*types.Struct)
		for i := range a {
			var ft types.Type
			if st != nil {
				ft = st.Field(i).Type()
			}
			cs = append(cs, in.equals(ft, a[i], b[i], pos))
		}
		return And(cs...)
	case Array:
		b := y.(Array)
		var cs []*Term
		var et types.Type
		if at, ok := t.Underlying().(*types.Array); ok {
			et = at.Elem()
		}
		for i := range a {
			cs = append(cs, in.equals(et, a[i], b[i], pos))
		}
		return And(cs...)
	case Time:
		if b, ok := y.(Time); ok {
			return Eq(a.T, b.T)
		}
	case BigInt:
		if b, ok := y.(BigInt); ok {
			// struct comparison of math.Int compares the *big.Int pointers
			if a.T == nil || b.T == nil {
				return BoolConst(a.T == nil && b.T == nil)
			}
		}
		in.unsupp("== on math.Int values (pointer comparison) at %s", in.posOf(pos))
	case *ErrVal:
		b, _ := y.(*ErrVal)
		return BoolConst(a == b)
	case nil:
		return BoolConst(y == nil)
	}
	in.unsupp("equals on %T / %T at %s", x, y, in.posOf(pos))
	return nil
}

func (in *Interp) conv(dst, src types.Type, x Value, pos token.Pos) Value {
	ud, us := dst.Underlying(), src.Underlying()
	if tp, ok := dst.(*types.TypeParam); ok {
		_ = tp
		in.unsupp("conversion to type parameter")
	}
	switch ud := ud.(type) {
	case *types.Basic:
		switch {
		case ud.Info()&types.IsInteger != 0:
			switch v := x.(type) {
			case *Term:
				bits, signed, _ := intInfo(ud)
				if v.Op == "int" {
					return IntConst(wrapBig(v.I, bits, signed))
				}
				// symbolic: value-preserving unless it cannot fit
				sb, ss, ok := intInfo(us)
				if ok && (sb < bits && (signed || !ss) || sb == bits && ss == signed) {
					return v
				}
				lo, hi := rangeOf(bits, signed)
				in.E.AddOverflowOb(InRange(v, lo, hi), in.posOf(pos)+"(conv "+ud.Name()+")")
				return v
			case Junk:
				return Junk{"float->int"}
			}
		case ud.Info()&types.IsString != 0:
			switch v := x.(type) {
			case string:
				return v
			case *SymStr:
				return v
			case *Term: // rune -> string
				if c, ok := v.ConstInt64(); ok {
					return string(rune(c))
				}
				in.unsupp("symbolic rune to string")
			case Slice:
				if sl, ok := us.(*types.Slice); ok {
					if eb, ok := sl.Elem().Underlying().(*types.Basic); ok && eb.Kind() == types.Int32 {
						var rs []rune
						for _, e := range v.V {
							c, ok := e.(*Term).ConstInt64()
							if !ok {
								in.unsupp("symbolic []rune to string")
							}
							rs = append(rs, rune(c))
						}
						return string(rs)
					}
				}
				b, ok := bytesOf(v.V)
				if !ok {
					return &SymStr{Desc: "string(symbolic bytes)", Bytes: append([]Value{}, v.V...)}
				}
				return string(b)
			}
		case ud.Info()&types.IsFloat != 0, ud.Info()&types.IsComplex != 0:
			return Junk{"to float"}
		case ud.Info()&types.IsBoolean != 0:
			return x
		case ud.Kind() == types.UnsafePointer:
			in.unsupp("unsafe.Pointer conversion at %s", in.posOf(pos))
		}
	case *types.Slice:
		switch v := x.(type) {
		case string:
			if eb, ok := ud.Elem().Underlying().(*types.Basic); ok && eb.Kind() == types.Int32 {
				var out []Value
				for _, r := range v {
					out = append(out, Int64(int64(r)))
				}
				if out == nil {
					out = []Value{}
				}
				return Slice{out}
			}
			b := bytesToVals([]byte(v))
			if b == nil {
				b = []Value{}
			}
			return Slice{b}
		case *SymStr:
			if v.Bytes != nil {
				if eb, ok := ud.Elem().Underlying().(*types.Basic); ok && eb.Kind() == types.Uint8 {
					return Slice{append([]Value{}, v.Bytes...)}
				}
			}
			in.unsupp("[]byte(opaque string %q) at %s", v.Desc, in.posOf(pos))
		case Slice:
			return v
		}
	case *types.Pointer:
		if _, ok := x.(*Value); ok {
			return x
		}
	default:
		return x
	}
	in.unsupp("conversion %v -> %v of %T at %s", src, dst, x, in.posOf(pos))
	return nil
}

var _ = utf8.RuneLen
var _ = fmt.Sprint
