package sym

import (
	"go/token"
	"math/big"
	"strings"

	"golang.org/x/tools/go/ssa"
)

var (
	precision   = new(big.Int).Exp(big.NewInt(10), big.NewInt(18), nil)
	halfPrec    = new(big.Int).Div(precision, big.NewInt(2))
	precT       = IntConst(precision)
	halfT       = IntConst(halfPrec)
	int256Limit = new(big.Int).Lsh(big.NewInt(1), 256)
	decLimit    = new(big.Int).Mul(new(big.Int).Lsh(big.NewInt(1), 256), precision)
)

func absT(t *Term) *Term { return Ite(Ge(t, Int64(0)), t, Neg(t)) }

// chopRound: remove 18 digits with banker's rounding (sign-symmetric).
func chopRound(t *Term) *Term {
	if t.Op == "int" {
		neg := t.I.Sign() < 0
		a := new(big.Int).Abs(t.I)
		q, r := new(big.Int).QuoRem(a, precision, new(big.Int))
		switch r.Cmp(halfPrec) {
		case 1:
			q.Add(q, big.NewInt(1))
		case 0:
			if q.Bit(0) == 1 {
				q.Add(q, big.NewInt(1))
			}
		}
		if neg {
			q.Neg(q)
		}
		return IntConst(q)
	}
	a := absT(t)
	q := FloorDiv(a, precT)
	r := EMod(a, precT)
	up := Or(Gt(r, halfT), And(Eq(r, halfT), Eq(EMod(q, Int64(2)), Int64(1))))
	res := Ite(up, Add(q, Int64(1)), q)
	return Ite(Ge(t, Int64(0)), res, Neg(res))
}

func chopTrunc(t *Term) *Term { return QuoTrunc(t, precT) }

func (in *Interp) decOf(v Value, pos token.Pos) *Term {
	d, ok := v.(Dec)
	if !ok {
		in.unsupp("LegacyDec expected, got %T", v)
	}
	if d.T == nil {
		in.goPanic(pos, "nil pointer dereference (nil LegacyDec)", nil)
	}
	return d.T
}

func (in *Interp) intOf(v Value, pos token.Pos) *Term {
	d, ok := v.(BigInt)
	if !ok {
		in.unsupp("math.Int expected, got %T", v)
	}
	if d.T == nil {
		in.goPanic(pos, "nil pointer dereference (nil math.Int)", nil)
	}
	return d.T
}

func (in *Interp) decRange(t *Term, pos token.Pos) Dec {
	if t.Op == "int" {
		if new(big.Int).Abs(t.I).Cmp(decLimit) > 0 {
			in.goPanic(pos, "Int overflow", nil)
		}
		return Dec{t}
	}
	in.E.AddOverflowOb(InRange(t, new(big.Int).Neg(decLimit), decLimit), in.posOf(pos)+"(LegacyDec range)")
	return Dec{t}
}

func (in *Interp) intRange256(t *Term, pos token.Pos) BigInt {
	if t.Op == "int" {
		if new(big.Int).Abs(t.I).Cmp(int256Limit) >= 0 {
			in.goPanic(pos, "Int overflow", nil)
		}
		return BigInt{t}
	}
	lim := new(big.Int).Sub(int256Limit, big.NewInt(1))
	in.E.AddOverflowOb(InRange(t, new(big.Int).Neg(lim), lim), in.posOf(pos)+"(math.Int range)")
	return BigInt{t}
}

func (in *Interp) toInt64(t *Term, pos token.Pos, what string) *Term {
	lo, hi := rangeOf(64, true)
	if t.Op == "int" {
		if t.I.Cmp(lo) < 0 || t.I.Cmp(hi) > 0 {
			in.goPanic(pos, what+" out of bound", nil)
		}
		return t
	}
	if !in.E.Branch(InRange(t, lo, hi), "int64-range@"+in.posOf(pos)) {
		in.goPanic(pos, what+" out of bound", nil)
	}
	return t
}

func parseDecStr(s string) (*big.Int, bool) {
	if s == "" {
		return nil, false
	}
	neg := false
	if s[0] == '-' {
		neg = true
		s = s[1:]
	}
	if s == "" {
		return nil, false
	}
	parts := strings.Split(s, ".")
	if len(parts) > 2 {
		return nil, false
	}
	intS, fracS := parts[0], ""
	if len(parts) == 2 {
		fracS = parts[1]
		if fracS == "" || intS == "" {
			return nil, false
		}
	}
	if len(fracS) > 18 {
		return nil, false
	}
	comb := intS + fracS
	for _, c := range comb {
		if c < '0' || c > '9' {
			return nil, false
		}
	}
	v, ok := new(big.Int).SetString(comb, 10)
	if !ok {
		return nil, false
	}
	v.Mul(v, new(big.Int).Exp(big.NewInt(10), big.NewInt(int64(18-len(fracS))), nil))
	if neg {
		v.Neg(v)
	}
	return v, true
}

func init() {
	M := pkgMath
	type f = func(in *Interp, fn *ssa.Function, a []Value, pos token.Pos) Value
	// ---------------- LegacyDec
	reg(M+".LegacyZeroDec", func(in *Interp, fn *ssa.Function, a []Value, pos token.Pos) Value { return Dec{Int64(0)} })
	reg(M+".LegacyOneDec", func(in *Interp, fn *ssa.Function, a []Value, pos token.Pos) Value { return Dec{precT} })
	reg(M+".LegacySmallestDec", func(in *Interp, fn *ssa.Function, a []Value, pos token.Pos) Value { return Dec{Int64(1)} })
	reg(M+".LegacyNewDec", func(in *Interp, fn *ssa.Function, a []Value, pos token.Pos) Value {
		return Dec{Mul(a[0].(*Term), precT)}
	})
	reg(M+".LegacyNewDecWithPrec", func(in *Interp, fn *ssa.Function, a []Value, pos token.Pos) Value {
		p, ok := a[1].(*Term).ConstInt64()
		if !ok || p < 0 || p > 18 {
			in.unsupp("LegacyNewDecWithPrec with symbolic/invalid precision")
		}
		return Dec{Mul(a[0].(*Term), IntConst(new(big.Int).Exp(big.NewInt(10), big.NewInt(18-p), nil)))}
	})
	reg(M+".LegacyNewDecFromInt", func(in *Interp, fn *ssa.Function, a []Value, pos token.Pos) Value {
		return Dec{Mul(in.intOf(a[0], pos), precT)}
	})
	reg(M+".LegacyNewDecFromStr", func(in *Interp, fn *ssa.Function, a []Value, pos token.Pos) Value {
		v, ok := parseDecStr(strOf(in, a[0]))
		if !ok {
			return tup(Dec{}, errIface(&ErrVal{Msg: "invalid decimal string"}))
		}
		return tup(Dec{IntConst(v)}, Iface{})
	})
	reg(M+".LegacyMustNewDecFromStr", func(in *Interp, fn *ssa.Function, a []Value, pos token.Pos) Value {
		v, ok := parseDecStr(strOf(in, a[0]))
		if !ok {
			in.goPanic(pos, "invalid decimal string", nil)
		}
		return Dec{IntConst(v)}
	})
	D := "(" + M + ".LegacyDec)."
	bin := func(name string, op func(in *Interp, x, y *Term, pos token.Pos) Value) {
		reg(D+name, func(in *Interp, fn *ssa.Function, a []Value, pos token.Pos) Value {
			return op(in, in.decOf(a[0], pos), in.decOf(a[1], pos), pos)
		})
	}
	bin("Add", func(in *Interp, x, y *Term, pos token.Pos) Value { return in.decRange(Add(x, y), pos) })
	bin("Sub", func(in *Interp, x, y *Term, pos token.Pos) Value { return in.decRange(Sub(x, y), pos) })
	bin("Mul", func(in *Interp, x, y *Term, pos token.Pos) Value { return in.decRange(chopRound(Mul(x, y)), pos) })
	bin("MulTruncate", func(in *Interp, x, y *Term, pos token.Pos) Value { return in.decRange(chopTrunc(Mul(x, y)), pos) })
	bin("Quo", func(in *Interp, x, y *Term, pos token.Pos) Value {
		in.bigDivCheck(y, pos)
		return in.decRange(chopRound(in.E.DivTrunc(Mul(Mul(x, precT), precT), y)), pos)
	})
	bin("QuoTruncate", func(in *Interp, x, y *Term, pos token.Pos) Value {
		in.bigDivCheck(y, pos)
		return in.decRange(in.E.DivTrunc(Mul(x, precT), y), pos)
	})
	bin("GT", func(in *Interp, x, y *Term, pos token.Pos) Value { return Gt(x, y) })
	bin("GTE", func(in *Interp, x, y *Term, pos token.Pos) Value { return Ge(x, y) })
	bin("LT", func(in *Interp, x, y *Term, pos token.Pos) Value { return Lt(x, y) })
	bin("LTE", func(in *Interp, x, y *Term, pos token.Pos) Value { return Le(x, y) })
	bin("Equal", func(in *Interp, x, y *Term, pos token.Pos) Value { return Eq(x, y) })
	un := func(name string, op func(in *Interp, x *Term, pos token.Pos) Value) {
		reg(D+name, func(in *Interp, fn *ssa.Function, a []Value, pos token.Pos) Value {
			return op(in, in.decOf(a[0], pos), pos)
		})
	}
	un("IsZero", func(in *Interp, x *Term, pos token.Pos) Value { return Eq(x, Int64(0)) })
	un("IsNegative", func(in *Interp, x *Term, pos token.Pos) Value { return Lt(x, Int64(0)) })
	un("IsPositive", func(in *Interp, x *Term, pos token.Pos) Value { return Gt(x, Int64(0)) })
	un("Neg", func(in *Interp, x *Term, pos token.Pos) Value { return Dec{Neg(x)} })
	un("Abs", func(in *Interp, x *Term, pos token.Pos) Value { return Dec{absT(x)} })
	un("Clone", func(in *Interp, x *Term, pos token.Pos) Value { return Dec{x} })
	un("TruncateInt64", func(in *Interp, x *Term, pos token.Pos) Value { return in.toInt64(chopTrunc(x), pos, "Int64()") })
	un("RoundInt64", func(in *Interp, x *Term, pos token.Pos) Value { return in.toInt64(chopRound(x), pos, "Int64()") })
	un("TruncateInt", func(in *Interp, x *Term, pos token.Pos) Value { return BigInt{chopTrunc(x)} })
	un("RoundInt", func(in *Interp, x *Term, pos token.Pos) Value { return BigInt{chopRound(x)} })
	un("TruncateDec", func(in *Interp, x *Term, pos token.Pos) Value { return Dec{Mul(chopTrunc(x), precT)} })
	un("IsInteger", func(in *Interp, x *Term, pos token.Pos) Value { return Eq(EMod(x, precT), Int64(0)) })
	un("String", func(in *Interp, x *Term, pos token.Pos) Value { return &SymStr{Desc: "dec(" + x.String() + ")"} })
	reg(D+"IsNil", func(in *Interp, fn *ssa.Function, a []Value, pos token.Pos) Value {
		return BoolConst(a[0].(Dec).T == nil)
	})
	reg(D+"QuoInt64", func(in *Interp, fn *ssa.Function, a []Value, pos token.Pos) Value {
		y := a[1].(*Term)
		in.bigDivCheck(y, pos)
		return Dec{in.E.DivTrunc(in.decOf(a[0], pos), y)}
	})
	reg(D+"MulInt64", func(in *Interp, fn *ssa.Function, a []Value, pos token.Pos) Value {
		return in.decRange(Mul(in.decOf(a[0], pos), a[1].(*Term)), pos)
	})
	reg(D+"QuoInt", func(in *Interp, fn *ssa.Function, a []Value, pos token.Pos) Value {
		y := in.intOf(a[1], pos)
		in.bigDivCheck(y, pos)
		return Dec{in.E.DivTrunc(in.decOf(a[0], pos), y)}
	})
	reg(D+"MulInt", func(in *Interp, fn *ssa.Function, a []Value, pos token.Pos) Value {
		return in.decRange(Mul(in.decOf(a[0], pos), in.intOf(a[1], pos)), pos)
	})
	reg(M+".LegacyMinDec", func(in *Interp, fn *ssa.Function, a []Value, pos token.Pos) Value {
		x, y := in.decOf(a[0], pos), in.decOf(a[1], pos)
		return Dec{Ite(Lt(x, y), x, y)}
	})
	reg(M+".LegacyMaxDec", func(in *Interp, fn *ssa.Function, a []Value, pos token.Pos) Value {
		x, y := in.decOf(a[0], pos), in.decOf(a[1], pos)
		return Dec{Ite(Lt(x, y), y, x)}
	})

	// ---------------- Int
	reg(M+".NewInt", func(in *Interp, fn *ssa.Function, a []Value, pos token.Pos) Value { return BigInt{a[0].(*Term)} })
	reg(M+".NewIntFromUint64", func(in *Interp, fn *ssa.Function, a []Value, pos token.Pos) Value { return BigInt{a[0].(*Term)} })
	reg(M+".ZeroInt", func(in *Interp, fn *ssa.Function, a []Value, pos token.Pos) Value { return BigInt{Int64(0)} })
	reg(M+".OneInt", func(in *Interp, fn *ssa.Function, a []Value, pos token.Pos) Value { return BigInt{Int64(1)} })
	reg(M+".NewIntFromString", func(in *Interp, fn *ssa.Function, a []Value, pos token.Pos) Value {
		if ss, ok := a[0].(*SymStr); ok && ss.Num != nil {
			// decimal text of a math.Int: always parses back to the same value
			return tup(BigInt{ss.Num}, True)
		}
		v, ok := new(big.Int).SetString(strOf(in, a[0]), 0)
		if !ok || new(big.Int).Abs(v).Cmp(int256Limit) >= 0 {
			return tup(BigInt{}, False)
		}
		return tup(BigInt{IntConst(v)}, True)
	})
	I := "(" + M + ".Int)."
	ibin := func(name string, op func(in *Interp, x, y *Term, pos token.Pos) Value) {
		reg(I+name, func(in *Interp, fn *ssa.Function, a []Value, pos token.Pos) Value {
			return op(in, in.intOf(a[0], pos), in.intOf(a[1], pos), pos)
		})
	}
	ibin("Add", func(in *Interp, x, y *Term, pos token.Pos) Value { return in.intRange256(Add(x, y), pos) })
	ibin("Sub", func(in *Interp, x, y *Term, pos token.Pos) Value { return in.intRange256(Sub(x, y), pos) })
	ibin("Mul", func(in *Interp, x, y *Term, pos token.Pos) Value { return in.intRange256(Mul(x, y), pos) })
	ibin("Quo", func(in *Interp, x, y *Term, pos token.Pos) Value {
		in.bigDivCheck(y, pos)
		return BigInt{in.E.DivTrunc(x, y)}
	})
	ibin("Mod", func(in *Interp, x, y *Term, pos token.Pos) Value {
		in.bigDivCheck(y, pos)
		return BigInt{EMod(x, absT(y))}
	})
	ibin("GT", func(in *Interp, x, y *Term, pos token.Pos) Value { return Gt(x, y) })
	ibin("GTE", func(in *Interp, x, y *Term, pos token.Pos) Value { return Ge(x, y) })
	ibin("LT", func(in *Interp, x, y *Term, pos token.Pos) Value { return Lt(x, y) })
	ibin("LTE", func(in *Interp, x, y *Term, pos token.Pos) Value { return Le(x, y) })
	ibin("Equal", func(in *Interp, x, y *Term, pos token.Pos) Value { return Eq(x, y) })
	iun := func(name string, op func(in *Interp, x *Term, pos token.Pos) Value) {
		reg(I+name, func(in *Interp, fn *ssa.Function, a []Value, pos token.Pos) Value {
			return op(in, in.intOf(a[0], pos), pos)
		})
	}
	iun("IsZero", func(in *Interp, x *Term, pos token.Pos) Value { return Eq(x, Int64(0)) })
	iun("IsNegative", func(in *Interp, x *Term, pos token.Pos) Value { return Lt(x, Int64(0)) })
	iun("IsPositive", func(in *Interp, x *Term, pos token.Pos) Value { return Gt(x, Int64(0)) })
	iun("Sign", func(in *Interp, x *Term, pos token.Pos) Value {
		return Ite(Gt(x, Int64(0)), Int64(1), Ite(Lt(x, Int64(0)), Int64(-1), Int64(0)))
	})
	iun("Neg", func(in *Interp, x *Term, pos token.Pos) Value { return BigInt{Neg(x)} })
	iun("Abs", func(in *Interp, x *Term, pos token.Pos) Value { return BigInt{absT(x)} })
	iun("Int64", func(in *Interp, x *Term, pos token.Pos) Value { return in.toInt64(x, pos, "Int64()") })
	iun("IsInt64", func(in *Interp, x *Term, pos token.Pos) Value {
		lo, hi := rangeOf(64, true)
		return InRange(x, lo, hi)
	})
	iun("Uint64", func(in *Interp, x *Term, pos token.Pos) Value {
		lo, hi := rangeOf(64, false)
		if !in.E.Branch(InRange(x, lo, hi), "uint64-range@"+in.posOf(pos)) {
			in.goPanic(pos, "Uint64() out of bounds", nil)
		}
		return x
	})
	iun("ToLegacyDec", func(in *Interp, x *Term, pos token.Pos) Value { return Dec{Mul(x, precT)} })
	iun("String", func(in *Interp, x *Term, pos token.Pos) Value {
		if x.Op == "int" {
			return x.I.String()
		}
		return &SymStr{Desc: "int(" + x.String() + ")", Num: x}
	})
	reg(I+"IsNil", func(in *Interp, fn *ssa.Function, a []Value, pos token.Pos) Value {
		return BoolConst(a[0].(BigInt).T == nil)
	})
	reg(I+"AddRaw", func(in *Interp, fn *ssa.Function, a []Value, pos token.Pos) Value {
		return in.intRange256(Add(in.intOf(a[0], pos), a[1].(*Term)), pos)
	})
	reg(I+"SubRaw", func(in *Interp, fn *ssa.Function, a []Value, pos token.Pos) Value {
		return in.intRange256(Sub(in.intOf(a[0], pos), a[1].(*Term)), pos)
	})
	reg(I+"MulRaw", func(in *Interp, fn *ssa.Function, a []Value, pos token.Pos) Value {
		return in.intRange256(Mul(in.intOf(a[0], pos), a[1].(*Term)), pos)
	})
	reg(I+"QuoRaw", func(in *Interp, fn *ssa.Function, a []Value, pos token.Pos) Value {
		y := a[1].(*Term)
		in.bigDivCheck(y, pos)
		return BigInt{in.E.DivTrunc(in.intOf(a[0], pos), y)}
	})
	reg(M+".MinInt", func(in *Interp, fn *ssa.Function, a []Value, pos token.Pos) Value {
		x, y := in.intOf(a[0], pos), in.intOf(a[1], pos)
		return BigInt{Ite(Lt(x, y), x, y)}
	})
	reg(M+".MaxInt", func(in *Interp, fn *ssa.Function, a []Value, pos token.Pos) Value {
		x, y := in.intOf(a[0], pos), in.intOf(a[1], pos)
		return BigInt{Ite(Lt(x, y), y, x)}
	})
}

func (in *Interp) bigDivCheck(y *Term, pos token.Pos) {
	if y.Op == "int" {
		if y.I.Sign() == 0 {
			in.goPanic(pos, "division by zero", nil)
		}
		return
	}
	if in.E.Branch(Eq(y, Int64(0)), "bigdivzero@"+in.posOf(pos)) {
		in.goPanic(pos, "division by zero", nil)
	}
}

func init() {
	M := pkgMath
	reg("("+M+".Int).Marshal", func(in *Interp, fn *ssa.Function, a []Value, pos token.Pos) Value {
		v := a[0].(BigInt)
		if v.T == nil {
			v = BigInt{Int64(0)}
		}
		return tup(blobSlice(v, "math.Int"), Iface{})
	})
	reg("(*"+M+".Int).Unmarshal", func(in *Interp, fn *ssa.Function, a []Value, pos token.Pos) Value {
		p := a[0].(*Value)
		b, ok, empty := blobOf(a[1])
		switch {
		case empty:
			in.write(p, BigInt{Int64(0)})
		case ok:
			in.write(p, b.V)
		default:
			in.unsupp("math.Int.Unmarshal of raw bytes")
		}
		return Iface{}
	})
	reg("("+M+".LegacyDec).Marshal", func(in *Interp, fn *ssa.Function, a []Value, pos token.Pos) Value {
		return tup(blobSlice(a[0], "math.LegacyDec"), Iface{})
	})
	reg("(*"+M+".LegacyDec).Unmarshal", func(in *Interp, fn *ssa.Function, a []Value, pos token.Pos) Value {
		p := a[0].(*Value)
		b, ok, empty := blobOf(a[1])
		switch {
		case empty:
			in.write(p, Dec{Int64(0)})
		case ok:
			in.write(p, b.V)
		default:
			in.unsupp("LegacyDec.Unmarshal of raw bytes")
		}
		return Iface{}
	})
	AC := "(github.com/cosmos/cosmos-sdk/codec/address.Bech32Codec)."
	reg(AC+"StringToBytes", func(in *Interp, fn *ssa.Function, a []Value, pos token.Pos) Value {
		prefix := strOf(in, a[0].(Struct)[0])
		str := strOf(in, a[1])
		fail := func(msg string) Value { return tup(Slice{}, errIface(&ErrVal{Msg: msg})) }
		if len(strings.TrimSpace(str)) == 0 {
			return fail("empty address string is not allowed")
		}
		hrp, bz, err := Bech32Decode(str)
		if err != nil {
			return fail(err.Error())
		}
		if hrp != prefix {
			return fail("hrp does not match bech32 prefix")
		}
		if len(bz) == 0 || len(bz) > 255 {
			return fail("invalid address length")
		}
		return tup(sliceOfBytes(bz), Iface{})
	})
	reg(AC+"BytesToString", func(in *Interp, fn *ssa.Function, a []Value, pos token.Pos) Value {
		prefix := strOf(in, a[0].(Struct)[0])
		s := a[1].(Slice)
		if len(s.V) == 0 {
			return tup("", Iface{})
		}
		b, ok := bytesOf(s.V)
		if !ok {
			return tup(&SymStr{Desc: "bech32(symbolic)"}, Iface{})
		}
		return tup(Bech32Encode(prefix, b), Iface{})
	})
}
