package vh

func Int64(name string) int64          { return 0 }
func Int(name string) int              { return 0 }
func Uint32(name string) uint32        { return 0 }
func Bool(name string) bool            { return false }
func Bound(name string, def int) int   { return def }
func Assume(c bool)                    {}
func Assert(c bool, label string)      {}
func Reach(label string)               {}
func And(a, b bool) bool               { return a && b }
func Or(a, b bool) bool                { return a || b }
func Implies(a, b bool) bool           { return !a || b }
func IteInt64(c bool, a, b int64) int64 { if c { return a }; return b }
func Sprintf(f string, a ...interface{}) string { return "" }
