package t

import (
	"sort"

	"mini/vh"
)

type V struct {
	Addr  []byte
	Power int64
}

func capPowers(validators []V, maxPower int64) []V {
	sort.Slice(validators, func(i, j int) bool { return validators[i].Power > validators[j].Power })
	remainingPower := int64(0)
	less := 0
	for _, v := range validators {
		if v.Power >= maxPower {
			remainingPower += (v.Power - maxPower)
		} else {
			less++
		}
	}
	updated := make([]V, len(validators))
	ppv := int64(0)
	rem := int64(less)
	if rem != 0 {
		ppv = remainingPower / rem
	}
	for i, v := range validators {
		if v.Power >= maxPower {
			updated[i] = validators[i]
			updated[i].Power = maxPower
		} else if v.Power+ppv >= maxPower {
			updated[i] = validators[i]
			updated[i].Power = maxPower
			remainingPower -= (maxPower - v.Power)
			rem--
		} else {
			updated[i] = validators[i]
			updated[i].Power = v.Power + ppv
			remainingPower -= (updated[i].Power - validators[i].Power)
			rem--
		}
		if rem == 0 {
			continue
		}
		ppv = remainingPower / rem
	}
	return updated
}

func T1() {
	n := vh.Bound("n", 3)
	vals := make([]V, n)
	total := int64(0)
	for i := 0; i < n; i++ {
		p := vh.Int64(vh.Sprintf("p%d", i))
		vh.Assume(p >= 1)
		vh.Assume(p <= 1000)
		vals[i] = V{Addr: []byte{byte(i)}, Power: p}
		total += p
	}
	m := vh.Int64("m")
	vh.Assume(m >= 1)
	vh.Assume(m <= 3000)
	vh.Assume(total <= int64(n)*m)
	out := capPowers(vals, m)
	vh.Reach("x")
	s := int64(0)
	for _, o := range out {
		s += o.Power
	}
	vh.Assert(s == total, "sum")
}

func abs(x int64) int64 {
	if x < 0 {
		return -x
	}
	return x
}

// T2: simple diamond + loop carried value
func T2() {
	a := vh.Int64("a")
	b := vh.Int64("b")
	vh.Assume(a > -1000)
	vh.Assume(a < 1000)
	vh.Assume(b > -1000)
	vh.Assume(b < 1000)
	m := a
	if b > a {
		m = b
	}
	vh.Reach("x")
	vh.Assert(vh.And(m >= a, m >= b), "max")
	vh.Assert(abs(a) >= 0, "abs")
	acc := int64(0)
	xs := []int64{a, b, a}
	for _, x := range xs {
		if x > 0 {
			acc += x
		} else if x < -5 {
			acc -= x
		} else {
			acc++
		}
	}
	vh.Assert(acc >= 0, "acc")
}

func T3() {
	m := vh.Int64("m")
	vh.Assume(m >= 1)
	vh.Assume(m <= 4)
	var ord []int
	if vh.Bool("b0") {
		ord = append(ord, 0)
	}
	if vh.Bool("b1") {
		ord = append(ord, 1)
	}
	want := int(m)
	if want > len(ord) {
		want = len(ord)
	}
	exp := make([]bool, 2)
	for j := 0; j < want; j++ {
		exp[ord[j]] = true
	}
	vh.Reach("x")
	vh.Assert(want <= len(ord), "want")
}
