module mini

go 1.23
