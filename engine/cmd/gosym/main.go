// gosym: symbolic execution of harness functions over /repo's current source.
package main

import (
	"encoding/json"
	"flag"
	"fmt"
	"os"
	"path/filepath"
	"sort"
	"strconv"
	"strings"
	"time"

	"golang.org/x/tools/go/packages"
	"golang.org/x/tools/go/ssa"
	"golang.org/x/tools/go/ssa/ssautil"

	"verif/engine/sym"
)

type HarnessSpec struct {
	Pkg      string           `json:"pkg"`
	Func     string           `json:"func"`
	Bounds   map[string]int64 `json:"bounds"`
	MaxPaths int              `json:"max_paths"`
	MapOrder bool             `json:"map_order"`
	TimeSec  int              `json:"time_s"`
	MaxViol  int              `json:"max_violations"`
	NoMerge  bool             `json:"no_merge"`
	Concrete map[string]string `json:"concrete,omitempty"`
}

type HarnessResult struct {
	Spec         HarnessSpec         `json:"spec"`
	Status       string              `json:"status"` // pass | violation | inconclusive | vacuous | error
	Paths        int                 `json:"paths"`
	Completed    int                 `json:"completed"`
	Infeasible   int                 `json:"infeasible"`
	Obligations  int                 `json:"obligations"`
	Discharged   int                 `json:"discharged"`
	Trivial      int                 `json:"trivial"`
	Branches     int                 `json:"branches"`
	Queries      int                 `json:"queries"`
	SolverSec    float64             `json:"solver_s"`
	WallSec      float64             `json:"wall_s"`
	Unsupported  []string            `json:"unsupported,omitempty"`
	Inconclusive []string            `json:"inconclusive,omitempty"`
	Violations   []sym.Violation     `json:"violations,omitempty"`
	Reached      map[string]int      `json:"reached"`
	Functions    []string            `json:"functions"`
	Samples      []map[string]string `json:"samples,omitempty"`
	SolverErrors []string            `json:"solver_errors,omitempty"`
	Error        string              `json:"error,omitempty"`
	Inputs       []string            `json:"inputs,omitempty"`
	Merges       int                 `json:"merges"`
	SpecAborts   map[string]int      `json:"spec_aborts,omitempty"`
}

func main() {
	repo := flag.String("repo", "/repo", "repository root")
	overlayDir := flag.String("overlay", "/verif/harness", "directory whose tree is overlaid on the repository")
	specFile := flag.String("spec", "", "JSON file: list of harness specs")
	out := flag.String("out", "", "result JSON file")
	solverBin := flag.String("solver", "z3-new", "solver binary")
	timeout := flag.Int("timeout", 30000, "per-query timeout (ms)")
	smtlog := flag.String("smtlog", "", "log SMT commands to file")
	trace := flag.Bool("trace", false, "trace")
	flag.Parse()

	var specs []HarnessSpec
	bz, err := os.ReadFile(*specFile)
	if err != nil {
		fatal(err)
	}
	if err := json.Unmarshal(bz, &specs); err != nil {
		fatal(err)
	}
	pkgSet := map[string]bool{}
	for _, s := range specs {
		pkgSet[s.Pkg] = true
	}
	var roots []string
	for p := range pkgSet {
		roots = append(roots, p)
	}
	sort.Strings(roots)

	overlay := map[string][]byte{}
	filepath.Walk(*overlayDir, func(path string, info os.FileInfo, err error) error {
		if err != nil || info.IsDir() || !strings.HasSuffix(path, ".go") {
			return nil
		}
		rel, _ := filepath.Rel(*overlayDir, path)
		if strings.HasSuffix(rel, "_test.go") {
			return nil
		}
		b, _ := os.ReadFile(path)
		overlay[filepath.Join(*repo, rel)] = b
		return nil
	})

	t0 := time.Now()
	cfg := &packages.Config{
		Mode:       packages.LoadAllSyntax,
		Dir:        *repo,
		BuildFlags: []string{"-tags=verif", "-mod=mod"},
		Env:        append(os.Environ(), "GOFLAGS=-mod=mod", "GOPROXY=off"),
		Overlay:    overlay,
	}
	pkgs, err := packages.Load(cfg, roots...)
	if err != nil {
		fatal(err)
	}
	nerr := 0
	packages.Visit(pkgs, nil, func(p *packages.Package) {
		for _, e := range p.Errors {
			if strings.Contains(p.PkgPath, "interchain-security") {
				fmt.Fprintln(os.Stderr, "LOAD ERROR", p.PkgPath, e)
				nerr++
			}
		}
	})
	if nerr > 0 {
		fatal(fmt.Errorf("%d load errors in repository packages", nerr))
	}
	prog, _ := ssautil.AllPackages(pkgs, ssa.InstantiateGenerics)
	prog.Build()
	loadSec := time.Since(t0).Seconds()
	fmt.Fprintf(os.Stderr, "loaded+built SSA in %.1fs\n", loadSec)

	byPath := map[string]*ssa.Package{}
	for _, p := range prog.AllPackages() {
		byPath[p.Pkg.Path()] = p
	}
	var results []HarnessResult
	for _, spec := range specs {
		res := runHarness(prog, byPath, pkgs, spec, *solverBin, *timeout, *smtlog, *trace)
		fmt.Fprintf(os.Stderr, "%-40s %-12s paths=%d obl=%d/%d viol=%d unsupp=%d %.1fs\n", spec.Func, res.Status, res.Paths, res.Discharged, res.Obligations, len(res.Violations), len(res.Unsupported), res.WallSec)
		results = append(results, res)
	}
	outb, _ := json.MarshalIndent(map[string]interface{}{"load_s": loadSec, "results": results}, "", " ")
	if *out == "" {
		fmt.Println(string(outb))
	} else if err := os.WriteFile(*out, outb, 0o644); err != nil {
		fatal(err)
	}
}

func fatal(err error) {
	fmt.Fprintln(os.Stderr, "gosym:", err)
	os.Exit(2)
}

func runHarness(prog *ssa.Program, byPath map[string]*ssa.Package, pkgs []*packages.Package, spec HarnessSpec, solverBin string, timeout int, smtlog string, trace bool) (res HarnessResult) {
	res.Spec = spec
	t0 := time.Now()
	defer func() { res.WallSec = time.Since(t0).Seconds() }()
	var pkg *ssa.Package
	for _, p := range pkgs {
		if strings.HasSuffix(p.PkgPath, strings.TrimPrefix(spec.Pkg, ".")) {
			pkg = byPath[p.PkgPath]
		}
	}
	if pkg == nil {
		res.Status, res.Error = "error", "package not found: "+spec.Pkg
		return
	}
	fn := pkg.Func(spec.Func)
	if fn == nil {
		res.Status, res.Error = "error", "harness function not found: "+spec.Func
		return
	}
	solver, err := sym.NewSolver(solverBin, timeout)
	if err != nil {
		res.Status, res.Error = "error", err.Error()
		return
	}
	defer solver.Close()
	if smtlog != "" {
		f, _ := os.Create(smtlog + "." + spec.Func + ".smt2")
		defer f.Close()
		solver.Log = f
	}
	ex := sym.NewExplorer(solver)
	if spec.MaxPaths > 0 {
		ex.MaxPaths = spec.MaxPaths
	}
	ex.Progress = func(s string) { fmt.Fprintf(os.Stderr, "  [%s] %s\n", spec.Func, s) }
	in := sym.NewInterp(prog, ex)
	in.Trace = trace
	if spec.MaxViol > 0 {
		ex.MaxViolations = spec.MaxViol
	}
	in.MapOrderNondet = spec.MapOrder
	in.NoMerge = spec.NoMerge
	if spec.TimeSec > 0 {
		ex.Deadline = time.Now().Add(time.Duration(spec.TimeSec) * time.Second)
	}
	for k, v := range spec.Bounds {
		in.Bounds[k] = v
	}
	if spec.Concrete != nil {
		in.Concrete = spec.Concrete
	}
	func() {
		defer func() {
			if r := recover(); r != nil {
				res.Status = "error"
				res.Error = fmt.Sprint(r)
				if os.Getenv("GOSYM_PANIC") != "" {
					panic(r)
				}
			}
		}()
		ex.Run(func() {
			in.ResetPath()
			in.CallEntry(fn)
		})
	}()
	res.Paths, res.Completed, res.Infeasible = ex.Paths, ex.Completed, ex.Infeasible
	res.Obligations, res.Discharged, res.Trivial = ex.Obligations, ex.Discharged, ex.Trivial
	res.Branches = ex.Branches
	res.Queries = solver.Queries
	res.SolverSec = solver.SolveDur.Seconds()
	res.Unsupported = ex.UnsupportedList()
	res.Inconclusive = ex.Inconclusive
	res.Violations = ex.Violations
	res.Reached = ex.Reached
	res.Samples = ex.Samples
	res.SolverErrors = solver.Errors
	res.Inputs = ex.InputOrd
	res.Merges = in.Merges
	res.SpecAborts = in.SpecAborts
	for f := range in.Entered {
		res.Functions = append(res.Functions, f)
	}
	sort.Strings(res.Functions)
	if res.Status == "error" {
		return
	}
	switch {
	case len(ex.Violations) > 0:
		res.Status = "violation"
	case len(ex.Unsupported) > 0 || len(ex.Inconclusive) > 0 || len(solver.Errors) > 0:
		res.Status = "inconclusive"
	case len(ex.Reached) == 0 || ex.Completed == 0:
		res.Status = "vacuous"
	default:
		res.Status = "pass"
	}
	return
}

var _ = strconv.Itoa
