#!/bin/bash
# engine self-test on the tiny module engine/testdata/mini (loads in ~1 s)
set -e
cd "$(dirname "$0")"
spec=$(mktemp); out=$(mktemp)
cat > $spec <<'JSON'
[{"pkg":"./t","func":"T1","bounds":{"n":3}},{"pkg":"./t","func":"T2"},{"pkg":"./t","func":"T3"}]
JSON
GOFLAGS=-mod=mod GOPROXY=off ../bin/gosym -repo "$PWD/testdata/mini" -overlay /nonexistent -spec $spec -out $out 2>/dev/null
python3 - "$out" <<'PY'
import json,sys
r=json.load(open(sys.argv[1]))
bad=[x['spec']['func']+':'+x['status'] for x in r['results'] if x['status']!='pass']
print("engine selftest:", "ok" if not bad else "FAILED "+str(bad))
sys.exit(1 if bad else 0)
PY
rm -f $spec $out
