#!/usr/bin/env python3
"""nativerun.py <pkg> <harness> k=v ... : run a harness natively on a hand-written vector
(debug aid for validating stub contracts against the real code)."""
import json, sys, os
sys.path.insert(0, "/verif")
import vcheck
pkg, harness = sys.argv[1], sys.argv[2]
vec = dict(a.split("=", 1) for a in sys.argv[3:])
p = "/verif/replays/.native-%d.json" % os.getpid()
json.dump(vec, open(p, "w"))
st, fails, out = vcheck.native_replay(pkg, harness, p)
os.remove(p)
print(st, fails)
print("\n".join(l for l in out.splitlines() if l.startswith("REPLAY") or "panic" in l or "FAIL" in l)[-3000:])
