#!/usr/bin/env python3
"""crosscheck.py [harness ...]: run some harnesses (quick bounds) under z3 5.1 (z3-new), z3 4.8.12 (z3)
and cvc5 1.0 and compare verdicts, path counts and obligations.  A solver cross-check of the
encoding's queries, not a registered check."""
import json, os, subprocess, sys, tempfile
V = os.path.dirname(os.path.abspath(__file__))
reg = json.load(open(os.path.join(V, "harness", "registry.json")))["properties"]
want = sys.argv[1:] or ["VerifC01Diff", "VerifC02ListUpdate", "VerifC03MinPower", "VerifC06Prune", "VerifC10TimeQueue",
                        "VerifC12EndBlockCIS", "VerifC15Genesis", "VerifC19AllocateRollback", "VerifC20UpdateQueued"]
specs, seen = [], set()
for p in sorted(reg):
    for h in reg[p]["harnesses"]:
        if h["func"] in want and h["func"] not in seen:
            seen.add(h["func"])
            specs.append({"pkg": h["pkg"], "func": h["func"], "bounds": h.get("bounds", {}).get("quick", {}), "time_s": 900,
                          "map_order": bool(h.get("map_order")), "max_paths": 20000})
env = dict(os.environ, GOFLAGS="-mod=mod", GOPROXY="off")
rows = {}
for solver in ["z3-new", "z3", "cvc5"]:
    with tempfile.TemporaryDirectory(dir=os.path.join(V, "replays")) as d:
        sp, out = os.path.join(d, "spec.json"), os.path.join(d, "out.json")
        json.dump(specs, open(sp, "w"))
        r = subprocess.run([os.path.join(V, "bin", "gosym"), "-repo", os.environ.get("VERIF_REPO", "/repo"), "-overlay", os.path.join(V, "harness"),
                            "-spec", sp, "-out", out, "-solver", solver, "-timeout", "60000"], env=env, capture_output=True, text=True, cwd=os.environ.get("VERIF_REPO", "/repo"))
        if not os.path.exists(out):
            print(solver, "FAILED", r.stderr[-500:]); continue
        for hr in json.load(open(out))["results"]:
            rows.setdefault(hr["spec"]["func"], {})[solver] = (hr["status"], hr["paths"], hr["obligations"], hr["discharged"], len(hr.get("violations") or []), round(hr.get("solver_s", 0), 1), (hr.get("inconclusive") or [])[:1])
print("| harness | solver | status | paths | obligations | discharged | violations | solver s |")
print("|---|---|---|---|---|---|---|---|")
bad = 0
for f in sorted(rows):
    base = rows[f].get("z3-new")
    for s in ["z3-new", "z3", "cvc5"]:
        if s in rows[f]:
            st = rows[f][s]
            print("| %s | %s | %s | %d | %d | %d | %d | %s |%s" % (f, s, st[0], st[1], st[2], st[3], st[4], st[5], (" " + str(st[6])) if st[6] else ""))
            if base and (st[0], st[4]) != (base[0], base[4]) and st[0] != "inconclusive":
                bad += 1
print("DISAGREEMENTS:", bad)
