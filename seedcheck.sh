#!/bin/bash
# seedcheck.sh <seed-id> <property> [checks...]: confirm a seeded change in its scratch worktree
# (build, existing tests, demonstration both ways), then run the given checks of /verif against /repo
# with the change applied, and undo it.  Results are printed; nothing is committed to /repo.
set -u
sid=$1; prop=$2; shift 2
checks=${@:-$prop}
wt=${WT_BASE:-/tmp/wt}/$sid; out=${OUT_BASE:-/tmp/seedout}/$sid
export GOFLAGS=-mod=mod GOPROXY=off DBUS_SESSION_BUS_ADDRESS=unix:path=/nonexistent
cd $wt || exit 2
git checkout -q -- . ; git clean -fdq
demo=$(ls $out/*_test.go | head -1)
pkgdir=$(grep -oE "x/ccv/[a-z_/]+|tests/[a-z_/]+|app/[a-z_/]+" $out/DEMO.txt | head -1)
[ -z "$pkgdir" ] && pkgdir=x/ccv/provider/keeper
pkgdir=${pkgdir%/}
while [ -n "$pkgdir" ] && [ ! -d "$wt/$pkgdir" ]; do pkgdir=$(dirname $pkgdir); done
testname=$(grep -oE "^func (Test[A-Za-z0-9_]+)" $demo | head -1 | sed 's/func //')
runargs="-run ^$testname\$"
if [ -z "$testname" ]; then
  # testify suite method: func (s *CCVTestSuite) TestX()
  testname=$(grep -oE "^func \([a-z]+ \*CCVTestSuite\) (Test[A-Za-z0-9_]+)" $demo | head -1 | sed 's/.* //')
  runargs="-run TestCCVTestSuite\$ -testify.m ^$testname\$"
fi
echo "demo=$demo pkg=$pkgdir test=$testname"
cp $demo $wt/$pkgdir/
echo "--- demo WITHOUT change (must pass)"
go test -vet=off -count=1 -timeout 60m $runargs ./$pkgdir/ 2>&1 | tail -3
git apply $out/patch.diff || { echo "PATCH DOES NOT APPLY"; exit 2; }
echo "--- build WITH change"
go build ./... && echo build ok
echo "--- demo WITH change (must fail)"
go test -vet=off -count=1 -timeout 60m $runargs ./$pkgdir/ 2>&1 | tail -3
rm -f $wt/$pkgdir/$(basename $demo)
echo "--- existing tests WITH change"
go test -vet=off -count=1 ./x/... ./app/... 2>&1 | grep -v "no test files" | grep -v "^ok" | tail -5
go test -vet=off -count=1 -timeout 90m ./tests/integration/... 2>&1 | tail -2
git checkout -q -- . ; git clean -fdq
if [ "${USE_REPO:-0}" = "1" ]; then
  echo "--- /verif checks against /repo WITH change"
  git -C /repo apply $out/patch.diff || { echo "PATCH DOES NOT APPLY TO /repo"; exit 2; }
  target=/repo
else
  echo "--- /verif checks against the scratch worktree (at /repo's HEAD) WITH change"
  git checkout -q --detach $(git -C /repo rev-parse HEAD)
  git apply $out/patch.diff || { echo "PATCH DOES NOT APPLY TO HEAD"; exit 2; }
  target=$wt
fi
cd /verif
for c in $checks; do
  VERIF_REPO=$target python3 vcheck.py $c --tier quick --no-evidence 2>&1 | grep -E "^(VIOLATION|KNOWN-FINDING|INCONCLUSIVE|ERROR|C[0-9]+ |  harness)" | cut -c1-500 | head -12
done
if [ "$target" = "/repo" ]; then git -C /repo checkout -- . ; git -C /repo status --short | grep -v testdata; else git -C $wt checkout -q -- . ; fi
echo "--- done"
