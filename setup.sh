#!/bin/bash
# Build the framework offline and warm the Go build cache used by native replays.
set -e
cd "$(dirname "$0")"
export GOFLAGS=-mod=mod GOPROXY=off
mkdir -p bin evidence replays
(cd engine && GOTOOLCHAIN=local GOSUMDB=off go build -o ../bin/gosym ./cmd/gosym)
z3-new --version
./engine/selftest.sh
# warm: compile the harness packages' test binaries once (native replay path)
python3 - <<'PY'
import json, os, subprocess, sys
sys.path.insert(0, os.getcwd())
import vcheck
ov = vcheck.overlay_json()
p = os.path.join("replays", ".overlay-setup.json")
json.dump(ov, open(p, "w"))
reg = vcheck.load_registry()
pkgs = sorted({h["pkg"] for pr in reg["properties"].values() for h in pr["harnesses"]})
env = vcheck.goenv()
r = subprocess.run(["go", "test", "-tags", "verif", "-vet=off", "-count=1", "-overlay", os.path.abspath(p), "-run", "^$"] + pkgs, cwd=vcheck.REPO, env=env)
os.remove(p)
sys.exit(r.returncode)
PY
echo setup ok
