#!/usr/bin/env python3
"""keepseed.py <seed-dir-name> <property> : copy a confirmed seeded change from /tmp/seedout/<name>
into /verif/seeded/<name>/ (patch.diff, demonstration, meta.json incl. what was run here)."""
import json, os, re, shutil, sys
name, prop = sys.argv[1], sys.argv[2]
src = os.environ.get("OUT_BASE", "/tmp/seedout") + "/" + name
dst = "/verif/seeded/" + name + os.environ.get("SEED_SUFFIX", "")
os.makedirs(dst, exist_ok=True)
shutil.copy(src + "/patch.diff", dst + "/patch.diff")
for f in os.listdir(src):
    if f.endswith("_test.go"):
        shutil.copy(src + "/" + f, dst + "/" + f + ".txt")  # .txt: must not be compiled as part of /verif
if os.path.exists(src + "/DEMO.txt"):
    shutil.copy(src + "/DEMO.txt", dst + "/DEMO.txt")
meta = {}
try:
    meta = json.load(open(src + "/meta.json"))
except Exception:
    pass
log = open(src + "/seedcheck.log").read() if os.path.exists(src + "/seedcheck.log") else ""
def section(title):
    m = re.search(re.escape(title) + r"\n(.*?)(?=\n--- |\Z)", log, re.S)
    return m.group(1).strip()[-600:] if m else ""
verdicts = re.findall(r"^(C\d+ (?:VIOLATED|HOLDS within bounds|INCONCLUSIVE in part).*)$", log, re.M)
meta_out = {
    "property": prop,
    "summary": meta.get("summary"),
    "needs": meta.get("needs"),
    "files": meta.get("files"),
    "author": "independent sub-agent given only the property text and a scratch worktree",
    "confirmed_here": {
        "demo_without_change": section("--- demo WITHOUT change (must pass)"),
        "build_with_change": section("--- build WITH change"),
        "demo_with_change": section("--- demo WITH change (must fail)"),
        "existing_tests_with_change": section("--- existing tests WITH change") or "all packages ok",
    },
    "verif_checks_with_change": verdicts,
    "violation_lines": re.findall(r"^(VIOLATION .*)$", log, re.M)[:4],
    "detected": any("VIOLATED" in v for v in verdicts) or bool(re.findall(r"^VIOLATION ", log, re.M)),
}
json.dump(meta_out, open(dst + "/meta.json", "w"), indent=1)
print(name, "detected" if meta_out["detected"] else "MISSED", verdicts)
