//go:build verif

package consumer

import (
	"github.com/cosmos/interchain-security/v7/x/ccv/consumer/keeper"
	"github.com/cosmos/interchain-security/v7/x/ccv/vh"
)

// VerifC01ConsumerEndBlock: the consumer module's EndBlock on an arbitrary
// stored cross-chain validator set and arbitrary accumulated pending changes:
// the updates handed to the consensus engine transform the set it had (equal to
// the stored set before the block) into the stored set after the block, never
// remove a key the engine does not have, never repeat a key, and the pending
// changes are consumed.
func VerifC01ConsumerEndBlock() {
	k := vh.Bound("keys", 2)
	h := keeper.VerifNewConsumerSetEnv(k)
	am := AppModule{keeper: *h.K}
	ups, err := am.EndBlock(h.Ctx)
	vh.Reach("after-endblock")
	vh.Assert(err == nil, "C01.consumer.endblock-no-error")
	_, still := h.K.GetPendingChanges(h.Ctx)
	vh.Assert(!still, "C01.consumer.pending-consumed")
	wantIn := make([]bool, k)
	wantP := make([]int64, k)
	copy(wantIn, h.In)
	copy(wantP, h.Power)
	for _, u := range h.Pending {
		j := h.KeyId(u.PubKey)
		wantIn[j] = u.Power > 0
		wantP[j] = u.Power
	}
	engIn := make([]bool, k)
	engP := make([]int64, k)
	copy(engIn, h.In)
	copy(engP, h.Power)
	seen := make([]bool, k)
	for _, u := range ups {
		j := h.KeyId(u.PubKey)
		vh.Assert(j >= 0 && !seen[j], "C01.consumer.engine-updates-no-duplicate")
		seen[j] = true
		vh.Assert(vh.Implies(u.Power == 0, engIn[j]), "C01.consumer.engine-never-asked-to-remove-unknown-key")
		engIn[j] = u.Power > 0
		engP[j] = u.Power
	}
	for j := 0; j < k; j++ {
		v, found := h.K.GetCCValidator(h.Ctx, h.Addr(j))
		vh.Assert(found == wantIn[j], "C01.consumer.stored-set-membership-follows-packets-in-order")
		vh.Assert(vh.Implies(found, v.Power == wantP[j]), "C01.consumer.stored-power-follows-packets-in-order")
		vh.Assert(engIn[j] == wantIn[j], "C01.consumer.engine-set-equals-stored-set")
		vh.Assert(vh.Implies(engIn[j], engP[j] == wantP[j]), "C01.consumer.engine-power-equals-stored-power")
	}
}
