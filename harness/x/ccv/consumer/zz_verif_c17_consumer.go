//go:build verif

package consumer

import (
	channeltypes "github.com/cosmos/ibc-go/v10/modules/core/04-channel/types"

	"github.com/cosmos/interchain-security/v7/x/ccv/consumer/keeper"
	ccv "github.com/cosmos/interchain-security/v7/x/ccv/types"
	"github.com/cosmos/interchain-security/v7/x/ccv/vh"
)

// VerifC17ConsumerCallbacks: the consumer's IBC channel callbacks with every
// handshake field a choice, with or without a recorded provider client and an
// already adopted CCV channel: Try and Confirm always fail (the consumer
// initiates); Init is accepted only for an ORDERED channel on the bound
// consumer port towards port "provider", version "1" (or blank), over exactly
// one hop built on the recorded provider client, and only while no CCV channel
// has been adopted; Ack is accepted only while no CCV channel has been adopted
// and the provider's metadata carry version "1".  No callback adopts a CCV
// channel (that happens on the provider's first packet), users can only close
// channels other than the adopted one.
func VerifC17ConsumerCallbacks() {
	h := keeper.VerifNewConsumerEnv()
	am := AppModule{keeper: *h.K}
	h.K.SetPort(h.Ctx, ccv.ConsumerPortID)
	hasClient := vh.ConcretizeInt(vh.Int("has_provider_client"), 0, 1) == 1
	if hasClient {
		h.K.SetProviderClientID(h.Ctx, "07-tendermint-0")
	}
	hasChannel := vh.ConcretizeInt(vh.Int("has_ccv_channel"), 0, 1) == 1
	if hasChannel {
		h.K.SetProviderChannel(h.Ctx, "channel-0")
	}
	ordered := vh.ConcretizeInt(vh.Int("ordered"), 0, 1) == 1
	portOk := vh.ConcretizeInt(vh.Int("port_ok"), 0, 1) == 1
	cpPortOk := vh.ConcretizeInt(vh.Int("counterparty_port_ok"), 0, 1) == 1
	versionKind := vh.ConcretizeInt(vh.Int("version"), 0, 2) // 0 "1", 1 blank, 2 other
	nhops := vh.ConcretizeInt(vh.Int("nhops"), 0, 2)
	conn := 0
	if nhops >= 1 {
		conn = vh.ConcretizeInt(vh.Int("conn"), 0, 2)
	}
	order := channeltypes.UNORDERED
	if ordered {
		order = channeltypes.ORDERED
	}
	port, cpPort := "transfer", "transfer"
	if portOk {
		port = ccv.ConsumerPortID
	}
	if cpPortOk {
		cpPort = ccv.ProviderPortID
	}
	version := []string{ccv.Version, "  ", "2"}[versionKind]
	var hops []string
	for i := 0; i < nhops; i++ {
		hops = append(hops, []string{"connection-0", "connection-1", "connection-9"}[conn])
	}
	h.AddChannel("channel-5", hops)

	v, errInit := am.OnChanOpenInit(h.Ctx, order, hops, port, "channel-5", channeltypes.Counterparty{PortId: cpPort}, version)
	wantInit := !hasChannel && ordered && portOk && cpPortOk && versionKind != 2 && nhops == 1 && conn == 0 && hasClient
	vh.Reach("after-init")
	vh.Assert((errInit == nil) == wantInit, "C17.consumer.init-accepted-iff-ordered-ports-version-single-hop-on-the-provider-client-and-no-ccv-channel-yet")
	if errInit == nil {
		vh.Assert(v == ccv.Version, "C17.consumer.init-returns-the-supported-version")
	}
	_, errTry := am.OnChanOpenTry(h.Ctx, order, hops, port, "channel-5", channeltypes.Counterparty{PortId: cpPort, ChannelId: "channel-9"}, version)
	vh.Assert(errTry != nil, "C17.consumer.never-accepts-a-handshake-opened-by-the-other-side")
	vh.Assert(am.OnChanOpenConfirm(h.Ctx, port, "channel-5") != nil, "C17.consumer.never-accepts-a-handshake-opened-by-the-other-side")

	mdKind := vh.ConcretizeInt(vh.Int("metadata"), 0, 1) // 0 version "1", 1 other version (undecodable bytes: outside the claim)
	md := ccv.HandshakeMetadata{ProviderFeePoolAddr: "cosmos1pool", Version: []string{ccv.Version, "2"}[mdKind]}
	bz, err := (&md).Marshal()
	vh.Assert(err == nil, "C17.setup")
	mdStr := string(bz)
	errAck := am.OnChanOpenAck(h.Ctx, port, "channel-5", "channel-9", mdStr)
	vh.Assert((errAck == nil) == (!hasChannel && mdKind == 0), "C17.consumer.ack-accepted-iff-no-ccv-channel-yet-and-provider-version-supported")
	ch, found := h.K.GetProviderChannel(h.Ctx)
	vh.Assert(found == hasChannel && (!found || ch == "channel-0"), "C17.consumer.handshake-callbacks-never-adopt-a-ccv-channel")
	vh.Assert(h.TransferChannelsOpened() <= 1, "C17.consumer.at-most-one-transfer-channel-opened")
	// closing
	errCloseOther := am.OnChanCloseInit(h.Ctx, port, "channel-5")
	vh.Assert((errCloseOther == nil) == hasChannel, "C17.consumer.duplicate-channels-closable-only-once-a-ccv-channel-is-adopted")
	vh.Assert(am.OnChanCloseInit(h.Ctx, port, "channel-0") != nil, "C17.consumer.users-cannot-close-the-adopted-ccv-channel")
}
