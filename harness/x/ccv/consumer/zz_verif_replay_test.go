//go:build verif

package consumer

import (
	"fmt"
	"os"
	"testing"

	"github.com/cosmos/interchain-security/v7/x/ccv/vh"
)

// TestVerifReplay runs one harness natively on a counterexample vector.
func TestVerifReplay(t *testing.T) {
	name := os.Getenv("VERIF_HARNESS")
	fn, ok := verifHarnesses[name]
	if !ok {
		t.Skipf("no harness %q in this package", name)
	}
	if err := vh.LoadVector(os.Getenv("VERIF_VECTOR")); err != nil {
		t.Fatal(err)
	}
	func() {
		defer func() {
			if r := recover(); r != nil {
				if _, isAssume := r.(vh.AssumeViolated); isAssume {
					fmt.Println("REPLAY-ASSUME-VIOLATED")
					return
				}
				fmt.Printf("REPLAY-PANIC: %v\n", r)
			}
		}()
		fn()
	}()
	for _, i := range vh.Infos {
		fmt.Println("REPLAY-INFO:", i)
	}
	for _, f := range vh.Failures {
		fmt.Println("REPLAY-FAIL:", f)
	}
	fmt.Println("REPLAY-DONE")
}
