//go:build verif

package keeper

import (
	"context"
	"errors"

	"cosmossdk.io/math"

	sdk "github.com/cosmos/cosmos-sdk/types"

	abci "github.com/cometbft/cometbft/abci/types"
	tmprotocrypto "github.com/cometbft/cometbft/proto/tendermint/crypto"
	transfertypes "github.com/cosmos/ibc-go/v10/modules/apps/transfer/types"
	channeltypes "github.com/cosmos/ibc-go/v10/modules/core/04-channel/types"

	"github.com/cosmos/interchain-security/v7/x/ccv/consumer/types"
	ccv "github.com/cosmos/interchain-security/v7/x/ccv/types"
	"github.com/cosmos/interchain-security/v7/x/ccv/vh"
)

const vcDenom = "stake"

type vcModAcc struct {
	sdk.ModuleAccountI
	addr sdk.AccAddress
}

func (m vcModAcc) GetAddress() sdk.AccAddress { return m.addr }

func vcModAddr(name string) sdk.AccAddress {
	b := make([]byte, 20)
	switch name {
	case "fee_collector":
		b[0] = 1
	case types.ConsumerRedistributeName:
		b[0] = 2
	case types.ConsumerToSendToProviderName:
		b[0] = 3
	default:
		b[0] = 9
	}
	return sdk.AccAddress(b)
}

type vcAuth struct{ ccv.AccountKeeper }

func (vcAuth) GetModuleAccount(ctx context.Context, name string) sdk.ModuleAccountI {
	return vcModAcc{addr: vcModAddr(name)}
}

// bank over one denom, balances by first address byte (1 fee pool, 2 redistribute, 3 to-provider)
type vcBank struct {
	ccv.BankKeeper
	bal map[byte]math.Int
}

func (b *vcBank) balanceOf(addr sdk.AccAddress) math.Int {
	if v, ok := b.bal[addr[0]]; ok {
		return v
	}
	return math.ZeroInt()
}

func (b *vcBank) GetAllBalances(ctx context.Context, addr sdk.AccAddress) sdk.Coins {
	v := b.balanceOf(addr)
	if v.IsZero() {
		return sdk.Coins{}
	}
	return sdk.Coins{sdk.Coin{Denom: vcDenom, Amount: v}}
}

func (b *vcBank) GetBalance(ctx context.Context, addr sdk.AccAddress, denom string) sdk.Coin {
	if denom != vcDenom {
		return sdk.Coin{Denom: denom, Amount: math.ZeroInt()}
	}
	return sdk.Coin{Denom: denom, Amount: b.balanceOf(addr)}
}

func (b *vcBank) SendCoinsFromModuleToModule(ctx context.Context, senderModule, recipientModule string, amt sdk.Coins) error {
	from, to := vcModAddr(senderModule)[0], vcModAddr(recipientModule)[0]
	for _, c := range amt {
		if b.balanceOf(vcModAddr(senderModule)).LT(c.Amount) {
			return errors.New("insufficient funds")
		}
		b.bal[from] = b.balanceOf(vcModAddr(senderModule)).Sub(c.Amount)
		b.bal[to] = b.balanceOf(vcModAddr(recipientModule)).Add(c.Amount)
	}
	return nil
}

type vcTransfer struct {
	bank  *vcBank
	sent  []sdk.Coin
	fail  bool
	memos []string
}

func (t *vcTransfer) Transfer(ctx context.Context, msg *transfertypes.MsgTransfer) (*transfertypes.MsgTransferResponse, error) {
	if t.fail {
		return nil, errors.New("transfer failed")
	}
	t.bank.bal[3] = t.bank.bal[3].Sub(msg.Token.Amount)
	t.sent = append(t.sent, msg.Token)
	t.memos = append(t.memos, msg.Memo)
	return &transfertypes.MsgTransferResponse{}, nil
}

// VerifC16ConsumerSplit: every block's collected fees are split exactly into the
// consumer share floor(fees*fraction) and the provider share fees - share; the
// three module accounts together hold what the fee pool held; the provider
// share is transmitted only every bpdt blocks over an OPEN transfer channel and
// a failed transfer moves nothing.
func VerifC16ConsumerSplit() {
	e := newVCEnv()
	fracs := []string{"0.75", "0", "1", "0.333333333333333333", "0.000000000000000001"}
	fi := vh.Bound("fraction", 0)
	p := e.k.GetConsumerParams(e.ctx)
	p.ConsumerRedistributionFraction = fracs[fi]
	p.RewardDenoms = []string{vcDenom}
	p.DistributionTransmissionChannel = "channel-7"
	p.ProviderFeePoolAddrStr = "cosmos1provider"
	bpdt := vh.Int64("bpdt")
	vh.Assume(bpdt >= 1)
	vh.Assume(bpdt <= 1<<30)
	p.BlocksPerDistributionTransmission = bpdt
	e.k.SetParams(e.ctx, p)
	bank := &vcBank{bal: map[byte]math.Int{}}
	fees := vh.BigInt("fees")
	vh.Assume(fees.GTE(math.ZeroInt()))
	vh.Assume(fees.LTE(math.NewInt(1 << 62)))
	prevRedistr := vh.BigInt("prev_redistribute")
	vh.Assume(prevRedistr.GTE(math.ZeroInt()))
	vh.Assume(prevRedistr.LTE(math.NewInt(1 << 62)))
	prevToSend := vh.BigInt("prev_to_provider")
	vh.Assume(prevToSend.GTE(math.ZeroInt()))
	vh.Assume(prevToSend.LTE(math.NewInt(1 << 62)))
	bank.bal[1], bank.bal[2], bank.bal[3] = fees, prevRedistr, prevToSend
	tr := &vcTransfer{bank: bank, fail: vh.Bool("transfer_fails")}
	e.k.bankKeeper, e.k.authKeeper, e.k.ibcTransferKeeper = bank, vcAuth{}, tr
	chOpen := vh.ConcretizeInt(vh.Int("transfer_channel_state"), 0, 2) // 0 open, 1 closed, 2 unknown
	switch chOpen {
	case 0:
		e.ch.channels["channel-7"] = channeltypes.Channel{State: channeltypes.OPEN}
	case 1:
		e.ch.channels["channel-7"] = channeltypes.Channel{State: channeltypes.CLOSED}
	}
	last := vh.Int64("last_transmission_height")
	vh.Assume(last >= 0)
	vh.Assume(last <= e.ctx.BlockHeight())
	e.k.SetLastTransmissionBlockHeight(e.ctx, types.LastTransmissionBlockHeight{Height: last})

	e.k.EndBlockRD(e.ctx)

	vh.Reach("after-endblock-rd")
	frac := math.LegacyMustNewDecFromStr(fracs[fi])
	share := math.LegacyNewDecFromInt(fees).Mul(frac).TruncateInt() // as specified: the configured fraction, rounded down
	due := e.ctx.BlockHeight()-last >= bpdt
	transmitted := math.ZeroInt()
	for _, c := range tr.sent {
		transmitted = transmitted.Add(c.Amount)
	}
	vh.Assert(bank.bal[1].IsZero(), "C16.consumer.fee-pool-emptied-every-block")
	vh.Assert(bank.bal[2].Equal(prevRedistr.Add(share)), "C16.consumer.consumer-share-is-fraction-rounded-down")
	vh.Assert(bank.bal[3].Add(transmitted).Equal(prevToSend.Add(fees.Sub(share))), "C16.consumer.provider-share-is-the-rest")
	vh.Assert(bank.bal[1].Add(bank.bal[2]).Add(bank.bal[3]).Add(transmitted).Equal(fees.Add(prevRedistr).Add(prevToSend)), "C16.consumer.no-tokens-created-or-lost")
	shouldSend := vh.And(due, vh.And(chOpen == 0, !tr.fail))
	if len(tr.sent) > 0 {
		vh.Assert(shouldSend, "C16.consumer.transmit-only-when-due-and-channel-open")
		vh.Assert(bank.bal[3].IsZero(), "C16.consumer.whole-accumulated-provider-share-transmitted")
		vh.Assert(tr.sent[0].Denom == vcDenom, "C16.consumer.only-allowed-denoms-transmitted")
	} else {
		vh.Assert(vh.Or(!shouldSend, prevToSend.Add(fees.Sub(share)).IsZero()), "C16.consumer.transmits-when-due-open-and-non-empty")
	}
	lt := e.k.GetLastTransmissionBlockHeight(e.ctx)
	vh.Assert(vh.Implies(due, lt.Height == e.ctx.BlockHeight()), "C16.consumer.transmission-period-restarts")
	vh.Assert(vh.Implies(!due, lt.Height == last), "C16.consumer.no-transmission-before-period-elapsed")
}

// ---- exported: a consumer with an arbitrary stored cross-chain validator set and
// arbitrary accumulated pending changes, for the end-block harness in package consumer

type VerifConsumerSetEnv struct {
	Ctx     sdk.Context
	K       *Keeper
	In      []bool
	Power   []int64
	Pending []abci.ValidatorUpdate
	NKeys   int
}

func VerifNewConsumerSetEnv(k int) *VerifConsumerSetEnv {
	e := newVCEnv()
	e.k.SetProviderChannel(e.ctx, "channel-0")
	p := e.k.GetConsumerParams(e.ctx)
	p.RewardDenoms = []string{vcDenom}
	p.DistributionTransmissionChannel = "channel-7"
	p.ProviderFeePoolAddrStr = "cosmos1provider"
	e.k.SetParams(e.ctx, p)
	bank := &vcBank{bal: map[byte]math.Int{1: math.ZeroInt(), 2: math.ZeroInt(), 3: math.ZeroInt()}}
	e.k.bankKeeper, e.k.authKeeper, e.k.ibcTransferKeeper = bank, vcAuth{}, &vcTransfer{bank: bank}
	e.k.SetLastTransmissionBlockHeight(e.ctx, types.LastTransmissionBlockHeight{Height: e.ctx.BlockHeight()})
	h := &VerifConsumerSetEnv{Ctx: e.ctx, K: &e.k, In: make([]bool, k), Power: make([]int64, k), NKeys: k}
	for j := 0; j < k; j++ {
		h.In[j] = vh.Bool(vh.Sprintf("set_in%d", j))
		h.Power[j] = vh.Int64(vh.Sprintf("set_p%d", j))
		vh.Assume(h.Power[j] >= 1)
		if vh.Guard(h.In[j]) {
			v, err := types.NewCCValidator(vcAddr(j), h.Power[j], vcSdkPubKey(j))
			vh.Assert(err == nil, "C01.consumer.setup")
			e.k.SetCCValidator(e.ctx, v)
		}
		vh.EndGuard()
	}
	if vh.ConcretizeInt(vh.Int("has_pending"), 0, 1) == 1 {
		h.Pending = vcSymbolicUpdates("pend", k)
		e.k.SetPendingChanges(e.ctx, ccv.ValidatorSetChangePacketData{ValidatorUpdates: h.Pending})
	}
	return h
}

func (h *VerifConsumerSetEnv) KeyId(pk tmprotocrypto.PublicKey) int { return vcKeyId(pk, h.NKeys) }
func (h *VerifConsumerSetEnv) Addr(j int) []byte                   { return vcAddr(j) }
