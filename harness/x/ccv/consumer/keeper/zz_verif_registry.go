//go:build verif

package keeper

var verifHarnesses = map[string]func(){
	"VerifC01ConsumerGenesis": VerifC01ConsumerGenesis,
	"VerifC01ConsumerApply":   VerifC01ConsumerApply,
	"VerifC09ConsumerSend":    VerifC09ConsumerSend,
	"VerifC08ConsumerReports": VerifC08ConsumerReports,
	"VerifC16ConsumerSplit":   VerifC16ConsumerSplit,
}
