//go:build verif

package keeper

import (
	"bytes"
	"context"
	"time"

	storetypes "cosmossdk.io/store/types"

	"github.com/cosmos/cosmos-sdk/codec/address"
	sdked25519 "github.com/cosmos/cosmos-sdk/crypto/keys/ed25519"
	sdk "github.com/cosmos/cosmos-sdk/types"
	stakingtypes "github.com/cosmos/cosmos-sdk/x/staking/types"

	abci "github.com/cometbft/cometbft/abci/types"
	tmprotocrypto "github.com/cometbft/cometbft/proto/tendermint/crypto"
	clienttypes "github.com/cosmos/ibc-go/v10/modules/core/02-client/types"
	conntypes "github.com/cosmos/ibc-go/v10/modules/core/03-connection/types"
	channeltypes "github.com/cosmos/ibc-go/v10/modules/core/04-channel/types"

	"github.com/cosmos/interchain-security/v7/x/ccv/consumer/types"
	ccv "github.com/cosmos/interchain-security/v7/x/ccv/types"
	"github.com/cosmos/interchain-security/v7/x/ccv/vh"
)

// ---- stubs

type vcSent struct {
	channel string
	data    []byte
}

type vcChannelKeeper struct {
	ccv.ChannelKeeper
	channels map[string]channeltypes.Channel
	sent     []vcSent
	sendErr  error
	closed   []string
}

func (c *vcChannelKeeper) GetChannel(ctx sdk.Context, srcPort, srcChan string) (channeltypes.Channel, bool) {
	ch, ok := c.channels[srcChan]
	return ch, ok
}

func (c *vcChannelKeeper) SendPacket(ctx sdk.Context, sourcePort, sourceChannel string, timeoutHeight clienttypes.Height, timeoutTimestamp uint64, data []byte) (uint64, error) {
	if c.sendErr != nil {
		return 0, c.sendErr
	}
	c.sent = append(c.sent, vcSent{sourceChannel, data})
	return uint64(len(c.sent)), nil
}

func (c *vcChannelKeeper) ChanCloseInit(ctx sdk.Context, portID, channelID string) error {
	c.closed = append(c.closed, channelID)
	return nil
}

type vcEnv struct {
	ctx sdk.Context
	k   Keeper
	ch  *vcChannelKeeper
	key *storetypes.KVStoreKey
}

func newVCEnv() *vcEnv {
	key := storetypes.NewKVStoreKey(types.StoreKey)
	now := vh.Time("now")
	vh.Assume(now.UnixNano() >= 1000000000000000000)
	vh.Assume(now.UnixNano() <= 4000000000000000000)
	h := vh.Int64("height")
	vh.Assume(h >= 2)
	vh.Assume(h <= 1<<40)
	ctx := vh.NewCtx(now, h, "consumer", key)
	ch := &vcChannelKeeper{channels: map[string]channeltypes.Channel{"channel-0": {State: channeltypes.OPEN}}}
	k := Keeper{
		authority:             "cosmos10d07y265gmmuvt4z0w9aw880jnsr700j6zn9kn",
		storeKey:              key,
		cdc:                   vh.NewCodec(),
		channelKeeper:         ch,
		feeCollectorName:      "fee_collector",
		validatorAddressCodec: address.NewBech32Codec("cosmosvaloper"),
		consensusAddressCodec: address.NewBech32Codec("cosmosvalcons"),
	}
	p := ccv.ConsumerParams{Enabled: true, BlocksPerDistributionTransmission: 1000, CcvTimeoutPeriod: 2419200000000000,
		TransferTimeoutPeriod: 3600000000000, ConsumerRedistributionFraction: "0.75", HistoricalEntries: 10000,
		UnbondingPeriod: 1728000000000000, RetryDelayPeriod: time.Duration(vcRetryDelay()), ConsumerId: "0"}
	k.SetParams(ctx, p)
	return &vcEnv{ctx: ctx, k: k, ch: ch, key: key}
}

func vcRetryDelay() int64 {
	d := vh.Int64("retry_delay")
	vh.Assume(d >= 1)
	vh.Assume(d <= 1<<50)
	return d
}

func vcPubKey(j int) tmprotocrypto.PublicKey {
	return tmprotocrypto.PublicKey{Sum: &tmprotocrypto.PublicKey_Ed25519{Ed25519: vh.PubKeyBytes(j)}}
}

func vcSdkPubKey(j int) *sdked25519.PubKey { return &sdked25519.PubKey{Key: vh.PubKeyBytes(j)} }

func vcAddr(j int) []byte { return vcSdkPubKey(j).Address() }

func vcKeyId(pk tmprotocrypto.PublicKey, k int) int {
	for j := 0; j < k; j++ {
		if bytes.Equal(pk.GetEd25519(), vh.PubKeyBytes(j)) {
			return j
		}
	}
	return -1
}

func vcSymbolicUpdates(prefix string, k int) []abci.ValidatorUpdate {
	var out []abci.ValidatorUpdate
	for j := 0; j < k; j++ {
		if vh.Bool(vh.Sprintf("%s_in%d", prefix, j)) {
			p := vh.Int64(vh.Sprintf("%s_p%d", prefix, j))
			vh.Assume(p >= 0)
			out = append(out, abci.ValidatorUpdate{PubKey: vcPubKey(j), Power: p})
		}
	}
	return out
}

// VerifC01ConsumerApply (L5+L6): a VSC packet received on top of arbitrary
// pending changes and an arbitrary stored cross-chain validator set, then the
// end-block flush: the stored set becomes apply(packet, apply(pending, set)),
// the updates handed to the consensus engine transform the old set into the
// new one and never remove an unknown key, pending changes are consumed.
func VerifC01ConsumerApply() {
	k := vh.Bound("keys", 2)
	e := newVCEnv()
	e.k.SetProviderChannel(e.ctx, "channel-0")
	in := make([]bool, k)
	pw := make([]int64, k)
	for j := 0; j < k; j++ {
		in[j] = vh.Bool(vh.Sprintf("set_in%d", j))
		pw[j] = vh.Int64(vh.Sprintf("set_p%d", j))
		vh.Assume(pw[j] >= 1)
		if vh.Guard(in[j]) {
			v, err := types.NewCCValidator(vcAddr(j), pw[j], vcSdkPubKey(j))
			vh.Assert(err == nil, "C01.consumer.setup")
			e.k.SetCCValidator(e.ctx, v)
		}
		vh.EndGuard()
	}
	pending := vcSymbolicUpdates("pend", k)
	hasPending := vh.ConcretizeInt(vh.Int("has_pending"), 0, 1) == 1
	if hasPending {
		e.k.SetPendingChanges(e.ctx, ccv.ValidatorSetChangePacketData{ValidatorUpdates: pending})
	} else {
		pending = nil
	}
	incoming := vcSymbolicUpdates("pkt", k)
	vh.Assume(len(incoming) > 0)
	vscId := vh.Uint64("vscid")
	vh.Assume(vscId >= 1)
	vh.Assume(vscId <= 1<<50)
	packet := channeltypes.Packet{DestinationChannel: "channel-0", DestinationPort: ccv.ConsumerPortID}
	err := e.k.OnRecvVSCPacket(e.ctx, packet, ccv.ValidatorSetChangePacketData{ValidatorUpdates: incoming, ValsetUpdateId: vscId})
	vh.Reach("after-recv")
	vh.Assert(err == nil, "C01.consumer.recv-no-error")
	vh.Assert(e.k.GetHeightValsetUpdateID(e.ctx, uint64(e.ctx.BlockHeight())+1) == vscId, "C12.consumer.next-height-mapped-to-received-id")
	// end-block flush, as consumer/module.go does it
	data, ok := e.k.GetPendingChanges(e.ctx)
	vh.Assert(ok, "C01.consumer.pending-recorded")
	ups := e.k.ApplyCCValidatorChanges(e.ctx, data.ValidatorUpdates)
	e.k.DeletePendingChanges(e.ctx)
	_, still := e.k.GetPendingChanges(e.ctx)
	vh.Assert(!still, "C01.consumer.pending-consumed")
	// expected set
	wantIn := make([]bool, k)
	wantP := make([]int64, k)
	copy(wantIn, in)
	copy(wantP, pw)
	for _, lst := range [][]abci.ValidatorUpdate{pending, incoming} {
		for _, u := range lst {
			j := vcKeyId(u.PubKey, k)
			wantIn[j] = u.Power > 0
			wantP[j] = u.Power
		}
	}
	for j := 0; j < k; j++ {
		v, found := e.k.GetCCValidator(e.ctx, vcAddr(j))
		vh.Assert(found == wantIn[j], "C01.consumer.stored-set-membership-follows-packets-in-order")
		vh.Assert(vh.Implies(found, v.Power == wantP[j]), "C01.consumer.stored-power-follows-packets-in-order")
	}
	// the engine-side set (equal to the stored set before) after the returned updates
	engIn := make([]bool, k)
	engP := make([]int64, k)
	copy(engIn, in)
	copy(engP, pw)
	seen := make([]bool, k)
	for _, u := range ups {
		j := vcKeyId(u.PubKey, k)
		vh.Assert(j >= 0 && !seen[j], "C01.consumer.engine-updates-no-duplicate")
		seen[j] = true
		vh.Assert(vh.Implies(u.Power == 0, engIn[j]), "C01.consumer.engine-never-asked-to-remove-unknown-key")
		engIn[j] = u.Power > 0
		engP[j] = u.Power
	}
	for j := 0; j < k; j++ {
		vh.Assert(engIn[j] == wantIn[j], "C01.consumer.engine-set-equals-stored-set")
		vh.Assert(vh.Implies(engIn[j], engP[j] == wantP[j]), "C01.consumer.engine-power-equals-stored-power")
	}
}

// VerifC08ConsumerReports: at most one outstanding downtime report per
// validator; it is cleared exactly by the acknowledgement naming its address.
func VerifC08ConsumerReports() {
	e := newVCEnv()
	e.k.SetProviderChannel(e.ctx, "channel-0")
	a0, a1 := sdk.ConsAddress(vcAddr(0)), sdk.ConsAddress(vcAddr(1))
	out0 := vh.Bool("outstanding0")
	if vh.Guard(out0) {
		e.k.SetOutstandingDowntime(e.ctx, a0)
	}
	vh.EndGuard()
	infr := stakingtypes.Infraction(vh.ConcretizeInt(vh.Int("infraction"), 0, 2))
	infrH := vh.Int64("infraction_height")
	vh.Assume(infrH >= 0)
	vh.Assume(infrH <= 1<<40)
	mapped := vh.Uint64("mapped_vscid")
	vh.Assume(mapped <= 1<<50)
	e.k.SetHeightValsetUpdateID(e.ctx, uint64(infrH), mapped)
	before := len(e.k.GetPendingPackets(e.ctx))
	_, err := e.k.SlashWithInfractionReason(e.ctx, a0, infrH, 5, vcFraction(), infr)
	vh.Reach("after-slash")
	vh.Assert(err == nil, "C08.consumer.no-error")
	pend := e.k.GetPendingPackets(e.ctx)
	downtime := infr == stakingtypes.Infraction_INFRACTION_DOWNTIME
	wantNew := infr != stakingtypes.Infraction_INFRACTION_UNSPECIFIED && !(downtime && out0)
	vh.Assert((len(pend) == before+1) == wantNew, "C08.consumer.at-most-one-outstanding-downtime-report-per-validator")
	if len(pend) == before+1 {
		sp := pend[before].GetSlashPacketData()
		vh.Assert(sp != nil && bytes.Equal(sp.Validator.Address, a0), "C08.consumer.report-names-the-validator")
		vh.Assert(sp.ValsetUpdateId == mapped, "C12.consumer.slash-packet-carries-id-of-infraction-height")
	}
	vh.Assert(e.k.OutstandingDowntime(e.ctx, a0) == vh.Or(out0, downtime), "C08.consumer.downtime-report-marks-validator-outstanding")
	// a validator-set change for the (existing) validator is not an acknowledgement
	v0, verr := types.NewCCValidator(vcAddr(0), 5, vcSdkPubKey(0))
	vh.Assert(verr == nil, "C08.consumer.setup")
	e.k.SetCCValidator(e.ctx, v0)
	newPower := vh.Int64("new_power")
	vh.Assume(newPower >= 1)
	vh.Assume(newPower <= 1<<40)
	flagBeforeUpdate := e.k.OutstandingDowntime(e.ctx, a0)
	e.k.ApplyCCValidatorChanges(e.ctx, []abci.ValidatorUpdate{{PubKey: vcPubKey(0), Power: newPower}})
	vh.Assert(e.k.OutstandingDowntime(e.ctx, a0) == flagBeforeUpdate, "C08.consumer.power-update-is-not-an-acknowledgement")
	// acknowledgement for another address does not clear it; the right one does
	packet := channeltypes.Packet{DestinationChannel: "channel-0", DestinationPort: ccv.ConsumerPortID}
	flagBefore := e.k.OutstandingDowntime(e.ctx, a0)
	vh.Assert(e.k.OnRecvVSCPacket(e.ctx, packet, ccv.ValidatorSetChangePacketData{ValidatorUpdates: []abci.ValidatorUpdate{{PubKey: vcPubKey(3), Power: 1}}, ValsetUpdateId: 9, SlashAcks: []string{a1.String()}}) == nil, "C08.consumer.recv")
	vh.Assert(e.k.OutstandingDowntime(e.ctx, a0) == flagBefore, "C08.consumer.ack-for-other-address-keeps-report")
	vh.Assert(e.k.OnRecvVSCPacket(e.ctx, packet, ccv.ValidatorSetChangePacketData{ValidatorUpdates: []abci.ValidatorUpdate{{PubKey: vcPubKey(3), Power: 1}}, ValsetUpdateId: 10, SlashAcks: []string{a0.String()}}) == nil, "C08.consumer.recv")
	vh.Assert(!e.k.OutstandingDowntime(e.ctx, a0), "C08.consumer.ack-clears-the-outstanding-report")
}

// ---- exported face of the consumer environment for harnesses in package consumer

type vcConnKeeper struct{ clients map[string]string }

func (c vcConnKeeper) GetConnection(ctx sdk.Context, connectionID string) (conntypes.ConnectionEnd, bool) {
	cl, ok := c.clients[connectionID]
	if !ok {
		return conntypes.ConnectionEnd{}, false
	}
	return conntypes.ConnectionEnd{ClientId: cl}, true
}

type vcCore struct{ opened []*channeltypes.MsgChannelOpenInit }

func (c *vcCore) ChannelOpenInit(goCtx context.Context, msg *channeltypes.MsgChannelOpenInit) (*channeltypes.MsgChannelOpenInitResponse, error) {
	c.opened = append(c.opened, msg)
	return &channeltypes.MsgChannelOpenInitResponse{ChannelId: "channel-77"}, nil
}

type VerifConsumerEnv struct {
	Ctx  sdk.Context
	K    *Keeper
	e    *vcEnv
	core *vcCore
}

// VerifNewConsumerEnv: consumer keeper with connection-0 built on the provider
// client 07-tendermint-0, connection-1 on another client; no CCV channel known to IBC yet.
func VerifNewConsumerEnv() *VerifConsumerEnv {
	e := newVCEnv()
	core := &vcCore{}
	e.k.connectionKeeper = vcConnKeeper{clients: map[string]string{"connection-0": "07-tendermint-0", "connection-1": "07-tendermint-1"}}
	e.k.ibcCoreKeeper = core
	return &VerifConsumerEnv{Ctx: e.ctx, K: &e.k, e: e, core: core}
}

func (h *VerifConsumerEnv) AddChannel(id string, hops []string) {
	h.e.ch.channels[id] = channeltypes.Channel{State: channeltypes.OPEN, ConnectionHops: hops}
}
func (h *VerifConsumerEnv) TransferChannelsOpened() int { return len(h.core.opened) }
