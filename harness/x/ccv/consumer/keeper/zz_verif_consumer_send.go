//go:build verif

package keeper

import (
	"cosmossdk.io/math"

	abci "github.com/cometbft/cometbft/abci/types"
	channeltypes "github.com/cosmos/ibc-go/v10/modules/core/04-channel/types"

	stakingtypes "github.com/cosmos/cosmos-sdk/x/staking/types"

	"github.com/cosmos/interchain-security/v7/x/ccv/consumer/types"
	ccv "github.com/cosmos/interchain-security/v7/x/ccv/types"
	"github.com/cosmos/interchain-security/v7/x/ccv/vh"
)

func vcFraction() math.LegacyDec { return math.LegacyNewDecWithPrec(1, 2) }

// VerifC09ConsumerSend: SendPackets over a queue of up to n packets of
// symbolic type (slash / vsc-matured) with an arbitrary slash record: nothing is
// sent while a slash packet is in flight or before the retry delay has passed;
// otherwise the non-slash prefix is sent and removed, the first slash packet is
// sent and stays at the head; nothing is dropped or duplicated.  Then one
// acknowledgement (v1 / handled / bounced) is applied.
func VerifC09ConsumerSend() {
	n := vh.Bound("packets", 3)
	e := newVCEnv()
	e.k.SetProviderChannel(e.ctx, "channel-0")
	isSlash := make([]bool, n)
	for i := 0; i < n; i++ {
		isSlash[i] = vh.ConcretizeInt(vh.Int(vh.Sprintf("is_slash%d", i)), 0, 1) == 1
		if isSlash[i] {
			e.k.AppendPendingPacket(e.ctx, ccv.SlashPacket, &ccv.ConsumerPacketData_SlashPacketData{
				SlashPacketData: ccv.NewSlashPacketData(abci.Validator{Address: vcAddr(i), Power: 1}, uint64(i), stakingtypes.Infraction_INFRACTION_DOWNTIME)})
		} else {
			e.k.AppendPendingPacket(e.ctx, ccv.VscMaturedPacket, &ccv.ConsumerPacketData_VscMaturedPacketData{
				VscMaturedPacketData: ccv.NewVSCMaturedPacketData(uint64(100 + i))})
		}
	}
	hasRecord := vh.ConcretizeInt(vh.Int("has_record"), 0, 1) == 1
	waiting := vh.Bool("waiting_on_reply")
	sendTime := vh.Time("record_send_time")
	vh.Assume(sendTime.UnixNano() >= 900000000000000000)
	vh.Assume(sendTime.UnixNano() <= 4000000000000000000)
	if hasRecord {
		e.k.SetSlashRecord(e.ctx, types.SlashRecord{WaitingOnReply: waiting, SendTime: sendTime})
	}
	now := e.ctx.BlockTime()
	permitted := true
	if hasRecord {
		permitted = vh.And(!waiting, now.After(sendTime.Add(e.k.GetRetryDelayPeriod(e.ctx))))
	}

	e.k.SendPackets(e.ctx)

	vh.Reach("after-send")
	rest := e.k.GetPendingPackets(e.ctx)
	if !permitted {
		vh.Assert(len(e.ch.sent) == 0, "C09.consumer.nothing-sent-while-slash-packet-in-flight-or-before-retry-delay")
		vh.Assert(len(rest) == n, "C09.consumer.queue-untouched-when-sending-not-permitted")
		return
	}
	// expected: non-slash prefix sent and deleted; first slash sent and kept
	firstSlash := n
	for i := n - 1; i >= 0; i-- {
		if isSlash[i] {
			firstSlash = i
		}
	}
	wantSent := firstSlash
	if firstSlash < n {
		wantSent = firstSlash + 1
	}
	vh.Assert(len(e.ch.sent) == wantSent, "C09.consumer.sends-prefix-up-to-first-slash-packet")
	vh.Assert(len(rest) == n-firstSlash, "C09.consumer.sent-non-slash-packets-removed-rest-kept")
	// acknowledgements of the vsc-matured packets sent ahead of the slash packet
	// arrive first (ordered channel): they change neither the queue nor the slash record
	maturedAck := vh.ConcretizeInt(vh.Int("matured_ack"), 0, 2)
	for i := 0; i < firstSlash; i++ {
		res := ccv.V1Result
		if maturedAck == 1 {
			res = ccv.SlashPacketHandledResult
		} else if maturedAck == 2 {
			res = ccv.SlashPacketBouncedResult
		}
		recBefore, foundBefore := e.k.GetSlashRecord(e.ctx)
		pkt := channeltypes.Packet{SourceChannel: "channel-0", SourcePort: ccv.ConsumerPortID, Data: e.ch.sent[i].data}
		aerr := e.k.OnAcknowledgementPacket(e.ctx, pkt, channeltypes.NewResultAcknowledgement(res))
		vh.Assert(aerr == nil, "C09.consumer.ack-no-error")
		recAfter, foundAfter := e.k.GetSlashRecord(e.ctx)
		vh.Assert(len(e.k.GetPendingPackets(e.ctx)) == len(rest), "C09.consumer.vsc-matured-ack-leaves-the-queue-alone")
		vh.Assert(foundBefore == foundAfter && recBefore.WaitingOnReply == recAfter.WaitingOnReply && recBefore.SendTime.Equal(recAfter.SendTime), "C09.consumer.vsc-matured-ack-leaves-the-slash-record-alone")
	}
	if firstSlash < n {
		vh.Assert(rest[0].Type == ccv.SlashPacket, "C09.consumer.slash-packet-stays-at-head-until-acknowledged")
		rec, found := e.k.GetSlashRecord(e.ctx)
		vh.Assert(found && rec.WaitingOnReply && rec.SendTime.Equal(now), "C09.consumer.slash-record-waiting-on-reply")
		vh.Assert(!e.k.PacketSendingPermitted(e.ctx), "C09.consumer.no-further-sending-while-waiting")
		// acknowledgement
		ackKind := vh.ConcretizeInt(vh.Int("ack"), 0, 2)
		var res ccv.PacketAckResult
		switch ackKind {
		case 0:
			res = ccv.V1Result
		case 1:
			res = ccv.SlashPacketHandledResult
		default:
			res = ccv.SlashPacketBouncedResult
		}
		pkt := channeltypes.Packet{SourceChannel: "channel-0", SourcePort: ccv.ConsumerPortID, Data: e.ch.sent[len(e.ch.sent)-1].data}
		aerr := e.k.OnAcknowledgementPacket(e.ctx, pkt, channeltypes.NewResultAcknowledgement(res))
		vh.Assert(aerr == nil, "C09.consumer.ack-no-error")
		after := e.k.GetPendingPackets(e.ctx)
		_, recFound := e.k.GetSlashRecord(e.ctx)
		if ackKind == 2 {
			vh.Assert(len(after) == len(rest), "C09.consumer.bounced-slash-packet-kept-for-retry")
			vh.Assert(recFound && !e.k.PacketSendingPermitted(e.ctx), "C09.consumer.bounced-packet-not-retried-before-delay")
		} else {
			vh.Assert(len(after) == len(rest)-1, "C09.consumer.handled-slash-packet-removed-exactly-once")
			vh.Assert(!recFound, "C09.consumer.handled-ack-clears-slash-record")
		}
	}
}
