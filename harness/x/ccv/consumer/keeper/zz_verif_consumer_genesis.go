//go:build verif

package keeper

import (
	sdk "github.com/cosmos/cosmos-sdk/types"

	abci "github.com/cometbft/cometbft/abci/types"
	ibctmtypes "github.com/cosmos/ibc-go/v10/modules/light-clients/07-tendermint"

	"github.com/cosmos/interchain-security/v7/x/ccv/consumer/types"
	ccv "github.com/cosmos/interchain-security/v7/x/ccv/types"
	"github.com/cosmos/interchain-security/v7/x/ccv/vh"
)

type vcClientKeeper struct {
	ccv.ClientKeeper
	created int
}

func (c *vcClientKeeper) CreateClient(ctx sdk.Context, clientType string, clientState, consensusState []byte) (string, error) {
	c.created++
	return "07-tendermint-0", nil
}

// VerifC01ConsumerGenesis (L7): a consumer started from the provider-made
// genesis (new chain, own client or pre-existing connection) or restarted from
// an exported one: the launch-time validator set of the genesis is stored
// unchanged and handed to the consensus engine unchanged, the genesis height is
// mapped to update id 0 on a new chain, the provider client is recorded and a
// CCV channel is adopted only when the exported genesis names one.
func VerifC01ConsumerGenesis() {
	k := vh.Bound("keys", 2)
	e := newVCEnv()
	ck := &vcClientKeeper{}
	core := &vcCore{}
	e.k.clientKeeper = ck
	e.k.connectionKeeper = vcConnKeeper{clients: map[string]string{"connection-0": "07-tendermint-5"}}
	e.k.ibcCoreKeeper = core
	var init []abci.ValidatorUpdate
	in := make([]bool, k)
	pw := make([]int64, k)
	for j := 0; j < k; j++ {
		in[j] = vh.ConcretizeInt(vh.Int(vh.Sprintf("init_in%d", j)), 0, 1) == 1
		pw[j] = vh.Int64(vh.Sprintf("init_p%d", j))
		vh.Assume(pw[j] >= 1)
		if in[j] {
			init = append(init, abci.ValidatorUpdate{PubKey: vcPubKey(j), Power: pw[j]})
		}
	}
	params := e.k.GetConsumerParams(e.ctx)
	kind := vh.ConcretizeInt(vh.Int("genesis_kind"), 0, 3) // 0 new + own client, 1 new + connection, 2 restart without channel, 3 restart with channel
	var gs *types.GenesisState
	switch kind {
	case 0:
		gs = types.NewInitialGenesisState(&ibctmtypes.ClientState{ChainId: "provider"}, &ibctmtypes.ConsensusState{}, init, params)
	case 1:
		gs = types.NewInitialGenesisState(nil, nil, init, params)
		gs.ConnectionId = "connection-0"
	case 2:
		gs = types.NewRestartGenesisState("07-tendermint-3", "", init, nil, types.ConsumerPacketDataList{}, nil, types.LastTransmissionBlockHeight{}, params)
	default:
		gs = types.NewRestartGenesisState("07-tendermint-3", "channel-4", init, nil, types.ConsumerPacketDataList{}, nil, types.LastTransmissionBlockHeight{}, params)
	}
	// an exported genesis with an established channel carries the outstanding downtime reports
	outstanding := kind == 3 && vh.ConcretizeInt(vh.Int("outstanding_report_for_0"), 0, 1) == 1
	if outstanding {
		gs.OutstandingDowntimeSlashing = []types.OutstandingDowntime{{ValidatorConsensusAddress: sdk.ConsAddress(vcAddr(0)).String()}}
	}
	ups := e.k.InitGenesis(e.ctx, gs)
	vh.Reach("after-genesis")
	vh.Assert(len(ups) == len(init), "C01.genesis.engine-receives-the-launch-set")
	for i := range ups {
		if i < len(init) {
			vh.Assert(vcKeyId(ups[i].PubKey, k) == vcKeyId(init[i].PubKey, k) && ups[i].Power == init[i].Power, "C01.genesis.engine-receives-the-launch-set")
		}
	}
	for j := 0; j < k; j++ {
		v, found := e.k.GetCCValidator(e.ctx, vcAddr(j))
		vh.Assert(found == in[j], "C01.genesis.stored-set-is-the-launch-set")
		vh.Assert(vh.Implies(found, v.Power == pw[j]), "C01.genesis.stored-powers-are-the-launch-powers")
	}
	cl, cfound := e.k.GetProviderClientID(e.ctx)
	wantClient := []string{"07-tendermint-0", "07-tendermint-5", "07-tendermint-3", "07-tendermint-3"}[kind]
	vh.Assert(cfound && cl == wantClient, "C17.consumer.genesis-records-the-provider-client")
	vh.Assert((ck.created == 1) == (kind == 0), "C17.consumer.own-client-created-only-without-connection")
	ch, chFound := e.k.GetProviderChannel(e.ctx)
	vh.Assert(chFound == (kind == 3) && (!chFound || ch == "channel-4"), "C17.consumer.genesis-adopts-only-an-exported-ccv-channel")
	vh.Assert((len(core.opened) == 1) == (kind == 1), "C17.consumer.handshake-initiated-over-the-given-connection-only")
	vh.Assert(e.k.OutstandingDowntime(e.ctx, sdk.ConsAddress(vcAddr(0))) == outstanding, "C08.consumer.restart-keeps-outstanding-downtime-reports")
	if kind <= 1 {
		vh.Assert(e.k.GetHeightValsetUpdateID(e.ctx, uint64(e.ctx.BlockHeight())) == 0, "C12.consumer.genesis-height-mapped-to-id-zero")
	}
}
