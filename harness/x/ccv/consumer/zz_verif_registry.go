//go:build verif

package consumer

var verifHarnesses = map[string]func(){
	"VerifC17ConsumerCallbacks": VerifC17ConsumerCallbacks,
	"VerifC01ConsumerEndBlock":  VerifC01ConsumerEndBlock,
}
