//go:build verif

// Package vh is the harness API of /verif. Natively every input is read from
// a replay vector (JSON name -> value); under the symbolic engine every
// function in this file is intercepted and its body is never executed.
package vh

import (
	"encoding/json"
	"fmt"
	"math/big"
	"os"
	"strconv"
	"time"

	dbm "github.com/cosmos/cosmos-db"

	"cosmossdk.io/log"
	"cosmossdk.io/math"
	"cosmossdk.io/store"
	"cosmossdk.io/store/metrics"
	storetypes "cosmossdk.io/store/types"

	"github.com/cosmos/cosmos-sdk/codec"
	codectypes "github.com/cosmos/cosmos-sdk/codec/types"
	cryptocodec "github.com/cosmos/cosmos-sdk/crypto/codec"
	"github.com/cosmos/cosmos-sdk/crypto/keys/ed25519"
	sdk "github.com/cosmos/cosmos-sdk/types"

	tmproto "github.com/cometbft/cometbft/proto/tendermint/types"
)

// ---- native replay state

var (
	Vector   map[string]string
	Failures []string
	Reached  []string
	Infos    []string
)

type AssumeViolated struct{ What string }

func LoadVector(path string) error {
	Vector = map[string]string{}
	Failures, Reached, Infos = nil, nil, nil
	if path == "" {
		return nil
	}
	bz, err := os.ReadFile(path)
	if err != nil {
		return err
	}
	return json.Unmarshal(bz, &Vector)
}

func SetVector(v map[string]string) {
	Vector = v
	Failures, Reached, Infos = nil, nil, nil
}

func sanitize(s string) string {
	out := []rune{}
	for _, r := range s {
		if r >= 'a' && r <= 'z' || r >= 'A' && r <= 'Z' || r >= '0' && r <= '9' || r == '_' || r == '.' {
			out = append(out, r)
		} else {
			out = append(out, '_')
		}
	}
	return string(out)
}

func big0(name string) *big.Int {
	s, ok := Vector[sanitize(name)]
	if !ok {
		return big.NewInt(0)
	}
	v, ok := new(big.Int).SetString(s, 10)
	if !ok {
		return big.NewInt(0)
	}
	return v
}

// ---- inputs

func Int64(name string) int64   { return big0(name).Int64() }
func Int(name string) int       { return int(big0(name).Int64()) }
func Uint64(name string) uint64 { return big0(name).Uint64() }
func Uint32(name string) uint32 { return uint32(big0(name).Uint64()) }
func Bool(name string) bool     { return Vector[sanitize(name)] == "true" }

// BigInt is an unbounded integer input wrapped as math.Int.
func BigInt(name string) math.Int { return math.NewIntFromBigInt(big0(name)) }

// Dec is a LegacyDec input given by its raw (10^-18) integer.
func Dec(name string) math.LegacyDec { return math.LegacyNewDecFromBigIntWithPrec(big0(name), 18) }

// Time is an instant given as nanoseconds since the Unix epoch.
func Time(name string) time.Time { return time.Unix(0, Int64(name)).UTC() }

// Bound returns a concrete, tier-dependent bound (never symbolic).
func Bound(name string, def int) int {
	if s, ok := Vector["bound."+name]; ok {
		if v, err := strconv.Atoi(s); err == nil {
			return v
		}
	}
	return def
}

// ---- assumptions / assertions

func Assume(c bool) {
	if !c {
		panic(AssumeViolated{"assumption violated under replay vector"})
	}
}

func Assert(c bool, label string) {
	if !c {
		Failures = append(Failures, label)
	}
}

func Reach(label string) { Reached = append(Reached, label) }
func Info(s string)      { Infos = append(Infos, s) }
func Symbolic() bool     { return false }

// Branch-free boolean / integer combinators (single SMT terms in the engine).
func And(a, b bool) bool     { return a && b }
func Or(a, b bool) bool      { return a || b }
func Implies(a, b bool) bool { return !a || b }
func Iff(a, b bool) bool     { return a == b }
func IteInt64(c bool, a, b int64) int64 {
	if c {
		return a
	}
	return b
}
func IteBool(c, a, b bool) bool {
	if c {
		return a
	}
	return b
}

// Concretize forces the engine to case-split on the value (native: identity).
func ConcretizeInt(v int, lo, hi int) int { return v }

// ---- environment

func NewCtx(t time.Time, height int64, chainID string, keys ...storetypes.StoreKey) sdk.Context {
	db := dbm.NewMemDB()
	ms := store.NewCommitMultiStore(db, log.NewNopLogger(), metrics.NewNoOpMetrics())
	for _, k := range keys {
		ms.MountStoreWithDB(k, storetypes.StoreTypeIAVL, db)
	}
	if err := ms.LoadLatestVersion(); err != nil {
		panic(err)
	}
	return sdk.NewContext(ms, tmproto.Header{Time: t, Height: height, ChainID: chainID}, false, log.NewNopLogger())
}

func NewCodec() codec.BinaryCodec {
	registry := codectypes.NewInterfaceRegistry()
	cryptocodec.RegisterInterfaces(registry)
	return codec.NewProtoCodec(registry)
}

func Sprintf(format string, a ...interface{}) string { return fmt.Sprintf(format, a...) }

// Show / ShowBool attach a named value to violation reports (debug aid).
func Show(name string, v int64)    { Infos = append(Infos, fmt.Sprintf("%s = %d", name, v)) }
func ShowBool(name string, v bool) { Infos = append(Infos, fmt.Sprintf("%s = %v", name, v)) }

// PubKeyBytes is the ed25519 public key of identity i (deterministic).
func PubKeyBytes(i int) []byte {
	return ed25519.GenPrivKeyFromSecret([]byte{byte(i)}).PubKey().Bytes()
}

// Guard / EndGuard bracket store writes that exist only if c holds:
//   if vh.Guard(c) { k.SetX(...) }; vh.EndGuard()
// natively this is an ordinary conditional; the engine executes the body once
// and records c as the presence condition of every cell written inside.
func Guard(c bool) bool { return c }
func EndGuard()         {}

// Byte is an arbitrary byte input.
func Byte(name string) byte { return byte(big0(name).Uint64()) }

// Native runs f only in the native build: environment that exists solely for
// code the engine replaces by a stub (the tendermint light-client module's
// store).  The engine skips the call.
func Native(f func()) { f() }

// LightClient declares the verdict of the tendermint light-client module for
// the client message about to be handled: conflicting = CheckForMisbehaviour,
// trusts = VerifyClientMessage succeeds.  Natively a no-op (the real module
// runs); the engine's stub of the module returns the declared verdict.
func LightClient(conflicting, trusts bool) {}

// SignBytes signs msg with the ed25519 private key of identity i.
func SignBytes(i int, msg []byte) []byte {
	sig, err := ed25519.GenPrivKeyFromSecret([]byte{byte(i)}).Sign(msg)
	if err != nil {
		panic(err)
	}
	return sig
}

// InfoErr attaches an error's text to violation reports (debug aid).
func InfoErr(err error) {
	if err != nil {
		Infos = append(Infos, "error: "+err.Error())
	}
}
