//go:build verif

package provider

import (
	"cosmossdk.io/math"

	sdk "github.com/cosmos/cosmos-sdk/types"

	ibctransfertypes "github.com/cosmos/ibc-go/v10/modules/apps/transfer/types"
	channeltypes "github.com/cosmos/ibc-go/v10/modules/core/04-channel/types"
	porttypes "github.com/cosmos/ibc-go/v10/modules/core/05-port/types"
	"github.com/cosmos/ibc-go/v10/modules/core/exported"

	"github.com/cosmos/interchain-security/v7/x/ccv/provider/keeper"
	"github.com/cosmos/interchain-security/v7/x/ccv/provider/types"
	"github.com/cosmos/interchain-security/v7/x/ccv/vh"
)

// vTransferApp is the wrapped transfer application: its receive callback
// returns a success or an error acknowledgement, as chosen.
type vTransferApp struct {
	porttypes.IBCModule
	ok    bool
	calls int
}

func (a *vTransferApp) OnRecvPacket(ctx sdk.Context, channelVersion string, packet channeltypes.Packet, relayer sdk.AccAddress) exported.Acknowledgement {
	a.calls++
	if a.ok {
		return channeltypes.NewResultAcknowledgement([]byte{1})
	}
	return channeltypes.Acknowledgement{Response: &channeltypes.Acknowledgement_Error{Error: "transfer failed"}}
}

const (
	vMwChannel   = "channel-7"
	vMwSrcChan   = "channel-3"
	vMwForeign   = "ufoo"
	vMwReturning = "transfer/channel-3/uatom"
)

// VerifC16Middleware: the provider's transfer middleware credits a successful
// transfer to the rewards pool to exactly one consumer — the one named by a
// valid reward memo, otherwise the one whose client underlies the transfer
// channel and that has a CCV channel — by exactly the transferred amount in
// the provider-side denom, and changes no credit otherwise (failed transfer,
// other recipient, unknown sender).  Every route is a choice; the amount and
// all previous credits are symbolic.
func VerifC16Middleware() {
	h := keeper.VerifNewBareHandshakeEnv()
	app := &vTransferApp{ok: vh.ConcretizeInt(vh.Int("transfer_ok"), 0, 1) == 1}
	toPool := vh.ConcretizeInt(vh.Int("to_pool"), 0, 1) == 1
	// when the transfer fails or goes to another recipient nothing may be credited on
	// any route: only the memo and the channel are varied there
	full := app.ok && toPool
	// two consumers (the first two of the environment), each: no client / client
	// without CCV channel / client and CCV channel; with or without chain id
	consumers := h.Consumers()[:2]
	nc := len(consumers)
	hasChain := make([]bool, nc)
	for i, c := range consumers {
		st := 2
		if full {
			st = vh.ConcretizeInt(vh.Int(vh.Sprintf("binding_%d", i)), 0, 2)
		}
		if st == 1 {
			h.Bind(i, i, -1)
		} else if st == 2 {
			h.Bind(i, i, i)
		}
		// bound all_chain_ids=0 (quick tier): only consumer 0's chain id may be missing
		hasChain[i] = !full || (i == 1 && vh.Bound("all_chain_ids", 0) == 0) || vh.ConcretizeInt(vh.Int(vh.Sprintf("has_chain_id_%d", i)), 0, 1) == 1
		if hasChain[i] {
			h.K.SetConsumerChainId(h.Ctx, c, vh.Sprintf("chain-%d", i))
		}
	}
	im := NewIBCMiddleware(app, *h.K)

	// the transfer channel: absent, or zero/one/two hops over a known or unknown connection
	nhops := vh.ConcretizeInt(vh.Int("nhops"), -1, 2) // -1: channel unknown
	conn := 0
	if nhops >= 1 {
		conn = vh.ConcretizeInt(vh.Int("conn"), 0, 2)
	}
	if nhops >= 0 {
		var hops []string
		for i := 0; i < nhops; i++ {
			if conn < 2 {
				hops = append(hops, h.Connections()[conn])
			} else {
				hops = append(hops, "connection-9")
			}
		}
		h.AddChannel(vMwChannel, hops)
	}
	// consumer identified by the channel's client
	byClient := -1
	if nhops == 1 && conn < 2 {
		for i := range consumers {
			if h.Client[i] == conn && h.Chan[i] >= 0 {
				byClient = i
			}
		}
	}

	receiver := sdk.AccAddress(make([]byte, 20)).String()
	if toPool {
		receiver = h.K.GetConsumerRewardsPoolAddressStr(h.Ctx)
	}
	memoKind := vh.ConcretizeInt(vh.Int("memo_kind"), 0, 5)
	memoConsumer := nc
	if memoKind == 2 || memoKind == 5 {
		memoConsumer = vh.ConcretizeInt(vh.Int("memo_consumer"), 0, nc) // nc: unknown id
	}
	memoId := "77"
	if memoConsumer < nc {
		memoId = consumers[memoConsumer]
	}
	memo := ""
	byMemo := false
	switch memoKind {
	case 1:
		memo = "consumer chain rewards distribution"
	case 2:
		memo = `{"provider": {"consumerId":"` + memoId + `","chainId":"x","memo":"ICS rewards"}}`
		byMemo = true
	case 3:
		memo = `{"forward": {"receiver":"x"}}`
	case 4:
		memo = `{"provider": 5}`
	case 5:
		memo = `{"provider": {"consumerId":"` + memoId + `"}, "forward": {}}`
		byMemo = true
	}
	// 0: a coin foreign to the provider, 1: a provider-native coin coming back over the channel it
	// left on, 2: a voucher the provider had received over another channel and forwarded, coming back
	denomKind := vh.ConcretizeInt(vh.Int("denom_returning"), 0, 2)
	denom, provDenom := vMwForeign, ""
	switch denomKind {
	case 1:
		denom, provDenom = vMwReturning, "uatom"
	case 2:
		denom = "transfer/" + vMwSrcChan + "/transfer/channel-9/stake"
		provDenom = ibctransfertypes.NewDenom("stake", ibctransfertypes.NewHop("transfer", "channel-9")).IBCDenom()
	default:
		provDenom = ibctransfertypes.NewDenom(vMwForeign, ibctransfertypes.NewHop("transfer", vMwChannel)).IBCDenom()
	}
	amount := vh.BigInt("amount")
	vh.Assume(amount.GTE(math.ZeroInt()))
	vh.Assume(amount.LTE(math.NewInt(1 << 62)))
	data := ibctransfertypes.FungibleTokenPacketData{Denom: denom, Amount: amount.String(), Sender: "cosmos1sender", Receiver: receiver, Memo: memo}
	packet := channeltypes.Packet{
		Sequence: 1, SourcePort: "transfer", SourceChannel: vMwSrcChan,
		DestinationPort: "transfer", DestinationChannel: vMwChannel,
		Data: types.ModuleCdc.MustMarshalJSON(&data),
	}

	// arbitrary previous credits in the credited denom and in another one
	other := "uother"
	pre := make([]math.LegacyDec, nc)
	preOther := make([]math.LegacyDec, nc)
	for i, c := range consumers {
		pre[i] = vh.Dec(vh.Sprintf("credit_%d", i))
		preOther[i] = vh.Dec(vh.Sprintf("credit_other_%d", i))
		vh.Assume(pre[i].GTE(math.LegacyZeroDec()))
		vh.Assume(pre[i].LTE(math.LegacyNewDec(1 << 62)))
		vh.Assume(preOther[i].GTE(math.LegacyZeroDec()))
		vh.Assume(preOther[i].LTE(math.LegacyNewDec(1 << 62)))
		_ = h.K.SetConsumerRewardsAllocationByDenom(h.Ctx, c, provDenom, types.ConsumerRewardsAllocation{Rewards: sdk.DecCoins{sdk.DecCoin{Denom: provDenom, Amount: pre[i]}}})
		_ = h.K.SetConsumerRewardsAllocationByDenom(h.Ctx, c, other, types.ConsumerRewardsAllocation{Rewards: sdk.DecCoins{sdk.DecCoin{Denom: other, Amount: preOther[i]}}})
	}

	ack := im.OnRecvPacket(h.Ctx, "ics20-1", packet, nil)
	vh.Reach("after-recv")
	vh.Assert(app.calls == 1, "C16.mw.transfer-executed-exactly-once")
	vh.Assert(ack.Success() == app.ok, "C16.mw.acknowledgement-is-the-transfer-acknowledgement")

	// who is credited
	want := -1
	if app.ok && toPool {
		if byMemo {
			want = memoConsumer
			if want == nc {
				want = -1
			}
		} else {
			want = byClient
		}
		if want >= 0 && !hasChain[want] {
			want = -1
		}
	}
	vh.Show("want", int64(want))
	for i, c := range consumers {
		a, err := h.K.GetConsumerRewardsAllocationByDenom(h.Ctx, c, provDenom)
		vh.Assert(err == nil, "C16.mw.credit-readable")
		exp := pre[i]
		if i == want {
			exp = exp.Add(math.LegacyNewDecFromInt(amount))
		}
		vh.Assert(a.Rewards.AmountOf(provDenom).Equal(exp), "C16.mw.credit-of-the-identified-consumer-grows-by-the-amount-and-no-other-changes")
		b, err := h.K.GetConsumerRewardsAllocationByDenom(h.Ctx, c, other)
		vh.Assert(err == nil, "C16.mw.credit-readable")
		vh.Assert(b.Rewards.AmountOf(other).Equal(preOther[i]), "C16.mw.credits-in-other-denoms-unchanged")
	}
}
