//go:build verif

package provider

import (
	channeltypes "github.com/cosmos/ibc-go/v10/modules/core/04-channel/types"

	"github.com/cosmos/interchain-security/v7/x/ccv/provider/keeper"
	ccv "github.com/cosmos/interchain-security/v7/x/ccv/types"
	"github.com/cosmos/interchain-security/v7/x/ccv/vh"
)

// VerifC17Callbacks: the provider's IBC channel callbacks with every handshake
// field a choice between the expected value and another one, from any binding
// state: Init and Ack always fail; Try is accepted only for an ORDERED channel
// on the bound provider port, counterparty port "consumer", version "1", a
// single hop on the client of exactly one consumer that has no channel; an
// accepted Try returns the handshake metadata and writes nothing.
func VerifC17Callbacks() {
	h := keeper.VerifNewHandshakeEnv()
	am := AppModule{keeper: h.K}
	h.K.SetPort(h.Ctx, ccv.ProviderPortID)
	ordered := vh.ConcretizeInt(vh.Int("ordered"), 0, 1) == 1
	portOk := vh.ConcretizeInt(vh.Int("port_ok"), 0, 1) == 1
	cpPortOk := vh.ConcretizeInt(vh.Int("counterparty_port_ok"), 0, 1) == 1
	versionOk := vh.ConcretizeInt(vh.Int("version_ok"), 0, 1) == 1
	nhops := vh.ConcretizeInt(vh.Int("nhops"), 0, 2)
	conn := vh.ConcretizeInt(vh.Int("conn"), 0, 2)
	order := channeltypes.UNORDERED
	if ordered {
		order = channeltypes.ORDERED
	}
	port, cpPort, version := "transfer", "transfer", "2"
	if portOk {
		port = ccv.ProviderPortID
	}
	if cpPortOk {
		cpPort = ccv.ConsumerPortID
	}
	if versionOk {
		version = ccv.Version
	}
	var hops []string
	for i := 0; i < nhops; i++ {
		if conn < 2 {
			hops = append(hops, h.Connections()[conn])
		} else {
			hops = append(hops, "connection-9")
		}
	}
	owner := -1
	if conn < 2 {
		for i := range h.Consumers() {
			if h.Client[i] == conn {
				owner = i
			}
		}
	}
	want := ordered && portOk && cpPortOk && versionOk && nhops == 1 && conn < 2 && owner >= 0 && h.Chan[owner] == -1

	_, errInit := am.OnChanOpenInit(h.Ctx, order, hops, port, "channel-1", channeltypes.Counterparty{PortId: cpPort}, version)
	vh.Assert(errInit != nil, "C17.provider-never-initiates-the-handshake")
	errAck := am.OnChanOpenAck(h.Ctx, port, "channel-1", "channel-9", version)
	vh.Assert(errAck != nil, "C17.provider-never-acknowledges-as-initiator")

	md, errTry := am.OnChanOpenTry(h.Ctx, order, hops, port, "channel-1", channeltypes.Counterparty{PortId: cpPort, ChannelId: "channel-9"}, version)
	vh.Reach("after-try")
	vh.Assert((errTry == nil) == want, "C17.try-accepted-iff-ordered-ports-version-single-hop-on-the-client-of-one-channelless-consumer")
	_ = md
	cl, ch, inv := h.Bindings()
	vh.Assert(inv, "C17.callbacks-preserve-one-to-one-bindings")
	for i := range h.Consumers() {
		vh.Assert(cl[i] == h.Client[i] && ch[i] == h.Chan[i], "C17.init-ack-try-write-no-binding")
	}
	vh.Assert(am.OnChanCloseInit(h.Ctx, port, "channel-0") != nil, "C17.users-cannot-close-the-ccv-channel")
}
