//go:build verif

package types

var verifHarnesses = map[string]func(){
	"VerifC13KeyEncoding": VerifC13KeyEncoding,
}
