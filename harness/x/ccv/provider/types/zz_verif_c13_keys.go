//go:build verif

package types

import (
	"bytes"
	"time"

	sdk "github.com/cosmos/cosmos-sdk/types"

	"github.com/cosmos/interchain-security/v7/x/ccv/vh"
)

func vSymAddr(name string) []byte {
	b := make([]byte, 20)
	for i := range b {
		b[i] = vh.Byte(vh.Sprintf("%s_%d", name, i))
	}
	return b
}

type vKeyFn struct {
	name   string
	prefix byte
	f      func(id string) []byte
}

// VerifC13KeyEncoding: for consumer ids where one is a textual prefix of the
// other, and symbolic suffixes (addresses, timestamps, uint ids), the
// per-consumer keys of every length-prefixed key space never collide, the
// iteration prefix of one consumer never covers a key of another consumer,
// and the Parse* functions invert the constructors.
func VerifC13KeyEncoding() {
	ids := []string{"1", "10", "2", "01"}
	if vh.Bound("more_ids", 0) == 1 {
		ids = append(ids, "100", "11", "21")
	}
	a1, a2 := vSymAddr("a1"), vSymAddr("a2")
	t1, t2 := vh.Time("t1"), vh.Time("t2")
	vh.Assume(t1.UnixNano() >= 0)
	vh.Assume(t2.UnixNano() >= 0)
	u1, u2 := vh.Uint64("u1"), vh.Uint64("u2")
	mk := func(a []byte, t time.Time, u uint64) []vKeyFn {
		pa := NewProviderConsAddress(a)
		ca := NewConsumerConsAddress(a)
		return []vKeyFn{
			{"ConsumerValidators", ConsumerValidatorsKeyPrefix(), func(id string) []byte { return ConsumerValidatorsKey(id, pa) }},
			{"ValidatorsByConsumerAddr", ValidatorsByConsumerAddrKeyPrefix(), func(id string) []byte { return ValidatorsByConsumerAddrKey(id, ca) }},
			{"ConsumerValidator", ConsumerValidatorKeyPrefix(), func(id string) []byte { return ConsumerValidatorKey(id, a) }},
			{"Allowlist", AllowlistKeyPrefix(), func(id string) []byte { return AllowlistKey(id, pa) }},
			{"Denylist", DenylistKeyPrefix(), func(id string) []byte { return DenylistKey(id, pa) }},
			{"Prioritylist", PrioritylistKeyPrefix(), func(id string) []byte { return PrioritylistKey(id, pa) }},
			{"OptedIn", OptedInKeyPrefix(), func(id string) []byte { return OptedInKey(id, pa) }},
			{"ConsumerCommissionRate", ConsumerCommissionRateKeyPrefix(), func(id string) []byte { return ConsumerCommissionRateKey(id, pa) }},
			{"ConsumerAddrsToPruneV2", ConsumerAddrsToPruneV2KeyPrefix(), func(id string) []byte { return ConsumerAddrsToPruneV2Key(id, t) }},
			{"MinimumPowerInTopN", 0, func(id string) []byte { return MinimumPowerInTopNKey(id) }},
			{"ConsumerIdToRemovalTime", ConsumerIdToRemovalTimeKeyPrefix(), func(id string) []byte { return ConsumerIdToRemovalTimeKey(id) }},
			{"ConsumerIdToPhase", ConsumerIdToPhaseKeyPrefix(), func(id string) []byte { return ConsumerIdToPhaseKey(id) }},
			{"ConsumerIdToMetadata", ConsumerIdToMetadataKeyPrefix(), func(id string) []byte { return ConsumerIdToMetadataKey(id) }},
			{"ConsumerIdToInitializationParameters", ConsumerIdToInitializationParametersKeyPrefix(), func(id string) []byte { return ConsumerIdToInitializationParametersKey(id) }},
			{"ConsumerIdToPowerShapingParameters", 0, func(id string) []byte { return ConsumerIdToPowerShapingParametersKey(id) }},
			{"ConsumerIdToChainId", 0, func(id string) []byte { return ConsumerIdToChainIdKey(id) }},
			{"ConsumerIdToOwnerAddress", 0, func(id string) []byte { return ConsumerIdToOwnerAddressKey(id) }},
			{"ConsumerIdToInfractionParameters", ConsumerIdToInfractionParametersKeyPrefix(), func(id string) []byte { return ConsumerIdToInfractionParametersKey(id) }},
			{"ConsumerIdToQueuedInfractionParameters", ConsumerIdToQueuedInfractionParametersKeyPrefix(), func(id string) []byte { return ConsumerIdToQueuedInfractionParametersKey(id) }},
			{"ConsumerIdToAllowlistedRewardDenom", ConsumerIdToAllowlistedRewardDenomKeyPrefix(), func(id string) []byte { return ConsumerIdToAllowlistedRewardDenomKey(id) }},
			{"ConsumerRewardsAllocationByDenom", ConsumerRewardsAllocationByDenomKeyPrefix(), func(id string) []byte { return ConsumerRewardsAllocationByDenomKey(id, "stake") }},
			{"StringIdAndUintIdKey", 0x7e, func(id string) []byte { return StringIdAndUintIdKey(0x7e, id, u) }},
		}
	}
	fs1, fs2 := mk(a1, t1, u1), mk(a2, t2, u2)
	vh.Reach("start")
	for _, id1 := range ids {
		for _, id2 := range ids {
			if id1 == id2 {
				continue
			}
			for i := range fs1 {
				k1 := fs1[i].f(id1)
				iterPrefix := k1
				if fs1[i].prefix != 0 {
					iterPrefix = StringIdWithLenKey(fs1[i].prefix, id1)
					vh.Assert(bytes.HasPrefix(k1, iterPrefix), "C13.keys.own-key-under-own-iteration-prefix")
				}
				for j := range fs2 {
					k2 := fs2[j].f(id2)
					vh.Assert(!bytes.Equal(k1, k2), "C13.keys.no-collision-across-consumers")
					vh.Assert(!bytes.HasPrefix(k2, iterPrefix), "C13.keys.iteration-prefix-excludes-other-consumers")
				}
			}
		}
	}
	// inverses
	for _, id := range ids {
		gid, gaddr, err := ParseStringIdAndConsAddrKey(OptedInKeyPrefix(), StringIdAndConsAddrKey(OptedInKeyPrefix(), id, sdk.ConsAddress(a1)))
		vh.Assert(err == nil && gid == id && bytes.Equal(gaddr, a1), "C13.keys.parse-consaddr-key-inverts")
		gid2, gts, err2 := ParseStringIdAndTsKey(ConsumerAddrsToPruneV2KeyPrefix(), StringIdAndTsKey(ConsumerAddrsToPruneV2KeyPrefix(), id, t1))
		vh.Assert(err2 == nil && gid2 == id && gts.Equal(t1), "C13.keys.parse-ts-key-inverts")
		gid3, gu, err3 := ParseStringIdAndUintIdKey(0x7e, StringIdAndUintIdKey(0x7e, id, u1))
		vh.Assert(err3 == nil && gid3 == id && gu == u1, "C13.keys.parse-uint-key-inverts")
		gid4, err4 := ParseStringIdWithLenKey(ConsumerIdToPhaseKeyPrefix(), StringIdWithLenKey(ConsumerIdToPhaseKeyPrefix(), id))
		vh.Assert(err4 == nil && gid4 == id, "C13.keys.parse-len-key-inverts")
	}
}
