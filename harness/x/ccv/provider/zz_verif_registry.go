//go:build verif

package provider

var verifHarnesses = map[string]func(){
	"VerifC16Middleware": VerifC16Middleware,
	"VerifC17Callbacks":  VerifC17Callbacks,
}
