//go:build verif

package provider

var verifHarnesses = map[string]func(){
	"VerifC17Callbacks": VerifC17Callbacks,
}
