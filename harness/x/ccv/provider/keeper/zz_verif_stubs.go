//go:build verif

package keeper

import (
	"bytes"
	"context"
	"time"

	"cosmossdk.io/math"
	storetypes "cosmossdk.io/store/types"

	"github.com/cosmos/cosmos-sdk/codec/address"
	sdked25519 "github.com/cosmos/cosmos-sdk/crypto/keys/ed25519"
	sdk "github.com/cosmos/cosmos-sdk/types"
	stakingtypes "github.com/cosmos/cosmos-sdk/x/staking/types"

	"github.com/cosmos/interchain-security/v7/x/ccv/provider/types"
	ccvtypes "github.com/cosmos/interchain-security/v7/x/ccv/types"
	"github.com/cosmos/interchain-security/v7/x/ccv/vh"
)

// ---------------------------------------------------------------------------
// identities: validator i has operator address [0xA0+i,0,...], ed25519 key
// vh.PubKeyBytes(i); consensus keys 100+j are "extra" keys for assignments.

func vOperator(i int) sdk.ValAddress {
	b := make([]byte, 20)
	b[0] = byte(0xA0 + i)
	return sdk.ValAddress(b)
}

func vSdkPubKey(i int) *sdked25519.PubKey { return &sdked25519.PubKey{Key: vh.PubKeyBytes(i)} }

func vConsAddr(i int) sdk.ConsAddress { return sdk.ConsAddress(vSdkPubKey(i).Address()) }

// ---------------------------------------------------------------------------
// staking stub (contract: DESIGN.md 2.4)

type vSlashRec struct {
	cons       sdk.ConsAddress
	height     int64
	power      int64
	fraction   math.LegacyDec
	infraction stakingtypes.Infraction
}

type vStaking struct {
	ccvtypes.StakingKeeper
	n         int
	vals      []stakingtypes.Validator
	power     []int64 // last validator power
	maxVals   uint32
	unbonding time.Duration
	jailCalls []sdk.ConsAddress
	slashes   []vSlashRec
	ubds      [][]stakingtypes.UnbondingDelegation
	reds      [][]stakingtypes.Redelegation
	failAt    map[string]bool
	hist      bool
	ubdSlash  math.Int // amount SlashUnbondingDelegation reports per entry
	redSlash  math.Int // amount SlashRedelegation reports per entry
}

func (s *vStaking) GetHistoricalInfo(ctx context.Context, height int64) (stakingtypes.HistoricalInfo, error) {
	if !s.hist {
		return stakingtypes.HistoricalInfo{}, stakingtypes.ErrNoHistoricalInfo
	}
	return stakingtypes.HistoricalInfo{}, nil
}

// newVStaking builds a universe of n validators whose status, jailed flag,
// tokens and last power are symbolic (prefix distinguishes several states).
func newVStaking(n int, prefix string) *vStaking {
	s := &vStaking{n: n, maxVals: 100, unbonding: time.Duration(vh.Int64(prefix + "unbonding"))}
	vh.Assume(s.unbonding > 0)
	vh.Assume(int64(s.unbonding) <= 1<<55)
	for i := 0; i < n; i++ {
		v, err := stakingtypes.NewValidator(vOperator(i).String(), vSdkPubKey(i), stakingtypes.Description{})
		if err != nil {
			panic(err)
		}
		bonded := vh.Bool(vh.Sprintf("%sbonded%d", prefix, i))
		unbonding := vh.Bool(vh.Sprintf("%sunbonding%d", prefix, i))
		if bonded {
			v.Status = stakingtypes.Bonded
		} else if unbonding {
			v.Status = stakingtypes.Unbonding
		}
		v.Jailed = vh.Bool(vh.Sprintf("%sjailed%d", prefix, i))
		v.Tokens = vh.BigInt(vh.Sprintf("%stokens%d", prefix, i))
		vh.Assume(v.Tokens.GTE(math.ZeroInt()))
		vh.Assume(v.Tokens.LTE(math.NewInt(1 << 62)))
		p := vh.Int64(vh.Sprintf("%spower%d", prefix, i))
		vh.Assume(p >= 0)
		vh.Assume(p <= int64(1)<<uint(vh.Bound("log2power", 50)))
		s.vals = append(s.vals, v)
		s.power = append(s.power, p)
	}
	s.ubds = make([][]stakingtypes.UnbondingDelegation, n)
	s.reds = make([][]stakingtypes.Redelegation, n)
	return s
}

func (s *vStaking) idxByOperator(op sdk.ValAddress) int {
	for i := 0; i < s.n; i++ {
		if bytes.Equal(op, vOperator(i)) {
			return i
		}
	}
	return -1
}

func (s *vStaking) idxByCons(cons sdk.ConsAddress) int {
	for i := 0; i < s.n; i++ {
		if bytes.Equal(cons, vConsAddr(i)) {
			return i
		}
	}
	return -1
}

func (s *vStaking) isActive(i int) bool { return s.vals[i].IsBonded() && !s.vals[i].Jailed }

func (s *vStaking) UnbondingTime(ctx context.Context) (time.Duration, error) { return s.unbonding, nil }
func (s *vStaking) MaxValidators(ctx context.Context) (uint32, error)        { return s.maxVals, nil }
func (s *vStaking) PowerReduction(ctx context.Context) math.Int              { return sdk.DefaultPowerReduction }
func (s *vStaking) MinCommissionRate(ctx context.Context) (math.LegacyDec, error) {
	return math.LegacyZeroDec(), nil
}

func (s *vStaking) BondDenom(ctx context.Context) (string, error)            { return "stake", nil }

func (s *vStaking) GetLastValidatorPower(ctx context.Context, operator sdk.ValAddress) (int64, error) {
	i := s.idxByOperator(operator)
	if i < 0 || !s.isActive(i) {
		return 0, nil // x/staking returns 0 for validators without a last-power record
	}
	return s.power[i], nil
}

func (s *vStaking) GetValidatorByConsAddr(ctx context.Context, consAddr sdk.ConsAddress) (stakingtypes.Validator, error) {
	i := s.idxByCons(consAddr)
	if i < 0 {
		return stakingtypes.Validator{}, stakingtypes.ErrNoValidatorFound
	}
	return s.vals[i], nil
}

func (s *vStaking) GetValidator(ctx context.Context, addr sdk.ValAddress) (stakingtypes.Validator, error) {
	i := s.idxByOperator(addr)
	if i < 0 {
		return stakingtypes.Validator{}, stakingtypes.ErrNoValidatorFound
	}
	return s.vals[i], nil
}

// before(i, j): staking power-index order (power desc, operator bytes asc).
func (s *vStaking) before(i, j int) bool {
	if s.power[i] != s.power[j] {
		return s.power[i] > s.power[j]
	}
	return i < j
}

func (s *vStaking) order() []int {
	var idx []int
	for i := 0; i < s.n; i++ {
		if s.isActive(i) {
			idx = append(idx, i)
		}
	}
	for a := 1; a < len(idx); a++ {
		for b := a; b > 0 && s.before(idx[b], idx[b-1]); b-- {
			idx[b], idx[b-1] = idx[b-1], idx[b]
		}
	}
	if len(idx) > int(s.maxVals) {
		idx = idx[:s.maxVals]
	}
	return idx
}

func (s *vStaking) GetBondedValidatorsByPower(ctx context.Context) ([]stakingtypes.Validator, error) {
	var out []stakingtypes.Validator
	for _, i := range s.order() {
		out = append(out, s.vals[i])
	}
	return out, nil
}

func (s *vStaking) GetLastTotalPower(ctx context.Context) (math.Int, error) {
	t := math.ZeroInt()
	for _, i := range s.order() {
		t = t.Add(math.NewInt(s.power[i]))
	}
	return t, nil
}

func (s *vStaking) IterateLastValidatorPowers(ctx context.Context, cb func(addr sdk.ValAddress, power int64) (stop bool)) error {
	for _, i := range s.order() {
		if cb(vOperator(i), s.power[i]) {
			break
		}
	}
	return nil
}

func (s *vStaking) IsValidatorJailed(ctx context.Context, addr sdk.ConsAddress) (bool, error) {
	i := s.idxByCons(addr)
	if i < 0 {
		return false, stakingtypes.ErrNoValidatorFound
	}
	return s.vals[i].Jailed, nil
}

func (s *vStaking) Jail(ctx context.Context, cons sdk.ConsAddress) error {
	s.jailCalls = append(s.jailCalls, cons)
	if i := s.idxByCons(cons); i >= 0 {
		s.vals[i].Jailed = true
	}
	return nil
}

func (s *vStaking) SlashWithInfractionReason(ctx context.Context, consAddr sdk.ConsAddress, infractionHeight, power int64, slashFactor math.LegacyDec, infraction stakingtypes.Infraction) (math.Int, error) {
	s.slashes = append(s.slashes, vSlashRec{consAddr, infractionHeight, power, slashFactor, infraction})
	return math.ZeroInt(), nil
}

func (s *vStaking) GetUnbondingDelegationsFromValidator(ctx context.Context, valAddr sdk.ValAddress) ([]stakingtypes.UnbondingDelegation, error) {
	i := s.idxByOperator(valAddr)
	if i < 0 {
		return nil, nil
	}
	return s.ubds[i], nil
}

func (s *vStaking) GetRedelegationsFromSrcValidator(ctx context.Context, valAddr sdk.ValAddress) ([]stakingtypes.Redelegation, error) {
	i := s.idxByOperator(valAddr)
	if i < 0 {
		return nil, nil
	}
	return s.reds[i], nil
}

func (s *vStaking) SlashUnbondingDelegation(ctx context.Context, ubd stakingtypes.UnbondingDelegation, infractionHeight int64, slashFactor math.LegacyDec) (math.Int, error) {
	if s.ubdSlash.IsNil() {
		return math.ZeroInt(), nil
	}
	return s.ubdSlash, nil
}

func (s *vStaking) SlashRedelegation(ctx context.Context, srcValidator stakingtypes.Validator, redelegation stakingtypes.Redelegation, infractionHeight int64, slashFactor math.LegacyDec) (math.Int, error) {
	if s.redSlash.IsNil() {
		return math.ZeroInt(), nil
	}
	return s.redSlash, nil
}

// ---------------------------------------------------------------------------
// slashing stub

type vSlashing struct {
	ccvtypes.SlashingKeeper
	st         *vStaking
	tombstoned []bool
	jailUntil  []time.Time
	jailCalls  int
	tombCalls  int
}

func newVSlashing(st *vStaking, prefix string) *vSlashing {
	s := &vSlashing{st: st}
	for i := 0; i < st.n; i++ {
		s.tombstoned = append(s.tombstoned, vh.Bool(vh.Sprintf("%stomb%d", prefix, i)))
		s.jailUntil = append(s.jailUntil, time.Time{})
	}
	return s
}

func (s *vSlashing) DowntimeJailDuration(ctx context.Context) (time.Duration, error) {
	return 600 * time.Second, nil
}

func (s *vSlashing) SlashFractionDowntime(ctx context.Context) (math.LegacyDec, error) {
	return math.LegacyNewDecWithPrec(1, 4), nil
}

func (s *vSlashing) SlashFractionDoubleSign(ctx context.Context) (math.LegacyDec, error) {
	return math.LegacyNewDecWithPrec(5, 2), nil
}

func (s *vSlashing) IsTombstoned(ctx context.Context, cons sdk.ConsAddress) bool {
	i := s.st.idxByCons(cons)
	if i < 0 {
		return false
	}
	return s.tombstoned[i]
}

func (s *vSlashing) JailUntil(ctx context.Context, cons sdk.ConsAddress, t time.Time) error {
	s.jailCalls++
	if i := s.st.idxByCons(cons); i >= 0 {
		s.jailUntil[i] = t
	}
	return nil
}

func (s *vSlashing) Tombstone(ctx context.Context, cons sdk.ConsAddress) error {
	s.tombCalls++
	if i := s.st.idxByCons(cons); i >= 0 {
		s.tombstoned[i] = true
	}
	return nil
}

// ---------------------------------------------------------------------------
// environment

type vEnv struct {
	ctx sdk.Context
	k   Keeper
	st  *vStaking
	sl  *vSlashing
	key *storetypes.KVStoreKey
	stubKey *storetypes.KVStoreKey // store of stubs whose state must follow cache contexts
}

const vAuthority = "cosmos10d07y265gmmuvt4z0w9aw880jnsr700j6zn9kn"

func newVEnv(nVals int) *vEnv {
	key := storetypes.NewKVStoreKey(types.StoreKey)
	stubKey := storetypes.NewKVStoreKey("vstubs")
	now := vh.Time("now")
	vh.Assume(now.UnixNano() >= 1000000000000000000)
	vh.Assume(now.UnixNano() <= 4000000000000000000)
	h := vh.Int64("height")
	vh.Assume(h >= 1)
	vh.Assume(h <= 1<<40)
	ctx := vh.NewCtx(now, h, "provider", key, stubKey)
	st := newVStaking(nVals, "")
	sl := newVSlashing(st, "")
	k := Keeper{
		authority:             vAuthority,
		storeKey:              key,
		cdc:                   vh.NewCodec(),
		stakingKeeper:         st,
		slashingKeeper:        sl,
		validatorAddressCodec: address.NewBech32Codec("cosmosvaloper"),
		consensusAddressCodec: address.NewBech32Codec("cosmosvalcons"),
		feeCollectorName:      "fee_collector",
	}
	return &vEnv{ctx: ctx, k: k, st: st, sl: sl, key: key, stubKey: stubKey}
}
