//go:build verif

package keeper

import (
	"time"

	"github.com/cosmos/interchain-security/v7/x/ccv/provider/types"
	"github.com/cosmos/interchain-security/v7/x/ccv/vh"
)

func vTimeIn(name string) time.Time {
	t := vh.Time(name)
	vh.Assume(t.UnixNano() >= 900000000000000000)
	vh.Assume(t.UnixNano() <= 4100000000000000000)
	return t
}

func vEqStrings(a, b []string) bool {
	if len(a) != len(b) {
		return false
	}
	for i := range a {
		if a[i] != b[i] {
			return false
		}
	}
	return true
}

// VerifC10TimeQueue: ConsumeIdsFromTimeQueue on the launch queue with two
// symbolic timestamps (ids "1","10" at tA, id "2" at tB), symbolic block time
// and symbolic limit: returns the first `limit` due ids in (time, FIFO) order,
// leaves exactly the rest queued, touches no entry that is not due.
func VerifC10TimeQueue() {
	e := newVEnv(1)
	tA, tB := vTimeIn("tA"), vTimeIn("tB")
	vh.Assert(e.k.AppendConsumerToBeLaunched(e.ctx, "1", tA) == nil, "C10.setup")
	vh.Assert(e.k.AppendConsumerToBeLaunched(e.ctx, "10", tA) == nil, "C10.setup")
	vh.Assert(e.k.AppendConsumerToBeLaunched(e.ctx, "2", tB) == nil, "C10.setup")
	limit := vh.Int("limit")
	vh.Assume(limit >= 1)
	vh.Assume(limit <= 4)
	now := e.ctx.BlockTime()

	// oracle: queue content in (time, FIFO) order
	var order []string
	var times []time.Time
	if tA.Equal(tB) {
		order, times = []string{"1", "10", "2"}, []time.Time{tA, tA, tA}
	} else if tA.Before(tB) {
		order, times = []string{"1", "10", "2"}, []time.Time{tA, tA, tB}
	} else {
		order, times = []string{"2", "1", "10"}, []time.Time{tB, tA, tA}
	}
	var want []string
	var rest []string
	var restT []time.Time
	for i, id := range order {
		if !times[i].After(now) && len(want) < limit {
			want = append(want, id)
		} else {
			rest = append(rest, id)
			restT = append(restT, times[i])
		}
	}

	got, err := e.k.ConsumeIdsFromTimeQueue(e.ctx, types.SpawnTimeToConsumerIdsKeyPrefix(),
		e.k.GetConsumersToBeLaunched, e.k.DeleteAllConsumersToBeLaunched, e.k.AppendConsumerToBeLaunched, limit)

	vh.Reach("after-consume")
	vh.Assert(err == nil, "C10.queue.no-error")
	vh.Assert(vEqStrings(got, want), "C10.queue.returns-first-limit-due-ids-in-time-fifo-order")
	// what remains queued
	var remain []string
	qa, _ := e.k.GetConsumersToBeLaunched(e.ctx, tA)
	remain = append(remain, qa.Ids...)
	if !tA.Equal(tB) {
		qb, _ := e.k.GetConsumersToBeLaunched(e.ctx, tB)
		if tA.Before(tB) {
			remain = append(remain, qb.Ids...)
		} else {
			remain = append(append([]string{}, qb.Ids...), remain...)
		}
	}
	vh.Assert(vEqStrings(remain, rest), "C10.queue.rest-stays-queued-no-loss-no-duplicate")
}

// VerifC20UpdateQueued: one UpdateQueuedInfractionParams request for launched
// consumer "1" from an arbitrary state satisfying the queue invariant.
func VerifC20UpdateQueued() {
	e := newVEnv(1)
	cid, other := "1", "10"
	cur := vSymbolicInfractionParams("cur_")
	vh.Assert(e.k.SetInfractionParameters(e.ctx, cid, cur) == nil, "C20.setup")
	pend := vSymbolicInfractionParams("pend_")
	tq := vTimeIn("tq")
	hasPending := vh.Bool("has_pending")
	if hasPending {
		vh.Assert(e.k.SetQueuedInfractionParameters(e.ctx, cid, pend) == nil, "C20.setup")
		vh.Assert(e.k.AddToInfractionUpdateSchedule(e.ctx, cid, tq) == nil, "C20.setup")
	}
	// another consumer with a pending change, possibly due at the same instant
	opend := vSymbolicInfractionParams("opend_")
	otq := vTimeIn("otq")
	vh.Assert(e.k.SetQueuedInfractionParameters(e.ctx, other, opend) == nil, "C20.setup")
	vh.Assert(e.k.AddToInfractionUpdateSchedule(e.ctx, other, otq) == nil, "C20.setup")

	req := vSymbolicInfractionParams("req_")
	err := e.k.UpdateQueuedInfractionParams(e.ctx, cid, req)
	vh.Reach("after-update")
	vh.Assert(err == nil, "C20.update.no-error")
	same := vSameInfractionParams(cur, req)
	due := e.ctx.BlockTime().Add(e.st.unbonding)
	q, qerr := e.k.GetQueuedInfractionParameters(e.ctx, cid)
	if same {
		vh.Assert(qerr != nil, "C20.update.request-equal-to-current-leaves-nothing-pending")
	} else {
		vh.Assert(qerr == nil, "C20.update.different-request-is-queued")
		vh.Assert(vSameInfractionParams(q, req), "C20.update.queued-equals-request")
	}
	// schedule membership of cid: exactly once at now+unbonding iff pending
	count := 0
	atDue := 0
	for _, t := range []time.Time{tq, otq, due} {
		ids, _ := e.k.GetFromInfractionUpdateSchedule(e.ctx, t)
		n := 0
		for _, id := range ids.Ids {
			if id == cid {
				n++
			}
		}
		// distinct keys only once
		if t.Equal(due) {
			atDue = n
		}
		if !(t.Equal(tq) && false) {
			count += n
		}
	}
	_ = count
	if same {
		vh.Assert(atDue == 0 || (hasPending && false), "C20.update.cancelled-request-not-scheduled-at-due-time")
	} else {
		vh.Assert(atDue == 1, "C20.update.scheduled-exactly-once-at-now-plus-unbonding")
	}
	if hasPending && !tq.Equal(due) {
		ids, _ := e.k.GetFromInfractionUpdateSchedule(e.ctx, tq)
		for _, id := range ids.Ids {
			vh.Assert(id != cid, "C20.update.older-pending-entry-replaced")
		}
	}
	// current parameters unchanged by a request on a launched consumer
	c2, cerr := e.k.GetInfractionParameters(e.ctx, cid)
	vh.Assert(cerr == nil && vSameInfractionParams(c2, cur), "C20.update.current-unchanged-until-due")
	// other consumer untouched
	oq, oerr := e.k.GetQueuedInfractionParameters(e.ctx, other)
	vh.Assert(oerr == nil && vSameInfractionParams(oq, opend), "C20.update.other-consumer-pending-untouched")
	oids, _ := e.k.GetFromInfractionUpdateSchedule(e.ctx, otq)
	on := 0
	for _, id := range oids.Ids {
		if id == other {
			on++
		}
	}
	vh.Assert(on == 1, "C20.update.other-consumer-still-scheduled-once")
}

// VerifC20BeginBlock: BeginBlockUpdateInfractionParameters applies exactly the
// pending changes that are due, once, and never errors on states satisfying the invariant.
func VerifC20BeginBlock() {
	e := newVEnv(1)
	ids := []string{"1", "10"}
	cur := make([]types.InfractionParameters, 2)
	pend := make([]types.InfractionParameters, 2)
	has := make([]bool, 2)
	tq := make([]time.Time, 2)
	for i, cid := range ids {
		cur[i] = vSymbolicInfractionParams(vh.Sprintf("cur%d_", i))
		vh.Assert(e.k.SetInfractionParameters(e.ctx, cid, cur[i]) == nil, "C20.setup")
		pend[i] = vSymbolicInfractionParams(vh.Sprintf("pend%d_", i))
		tq[i] = vTimeIn(vh.Sprintf("tq%d", i))
		has[i] = vh.Bool(vh.Sprintf("has%d", i))
		if has[i] {
			vh.Assert(e.k.SetQueuedInfractionParameters(e.ctx, cid, pend[i]) == nil, "C20.setup")
			vh.Assert(e.k.AddToInfractionUpdateSchedule(e.ctx, cid, tq[i]) == nil, "C20.setup")
		}
	}
	now := e.ctx.BlockTime()
	err := e.k.BeginBlockUpdateInfractionParameters(e.ctx)
	vh.Reach("after-beginblock")
	vh.Assert(err == nil, "C20.beginblock.no-error")
	for i, cid := range ids {
		c2, cerr := e.k.GetInfractionParameters(e.ctx, cid)
		vh.Assert(cerr == nil, "C20.beginblock.current-present")
		_, qerr := e.k.GetQueuedInfractionParameters(e.ctx, cid)
		if has[i] && !tq[i].After(now) {
			vh.Assert(vSameInfractionParams(c2, pend[i]), "C20.beginblock.due-change-applied")
			vh.Assert(qerr != nil, "C20.beginblock.applied-change-no-longer-pending")
		} else {
			vh.Assert(vSameInfractionParams(c2, cur[i]), "C20.beginblock.not-due-change-not-applied")
			vh.Assert((qerr == nil) == has[i], "C20.beginblock.not-due-change-stays-pending")
		}
		sched, _ := e.k.GetFromInfractionUpdateSchedule(e.ctx, tq[i])
		n := 0
		for _, id := range sched.Ids {
			if id == cid {
				n++
			}
		}
		if has[i] && tq[i].After(now) {
			vh.Assert(n == 1, "C20.beginblock.not-due-entry-kept")
		} else {
			vh.Assert(n == 0, "C20.beginblock.due-entry-removed")
		}
	}
}

// VerifC20BeginBlockMany: more than 200 pending changes with the same due time:
// exactly 200 are applied in this block, the others stay pending AND scheduled
// at the same time (to be applied in the following blocks), nothing is lost.
func VerifC20BeginBlockMany() {
	n := vh.Bound("consumers", 202)
	e := newVEnv(1)
	due := vTimeIn("due")
	cur, pend := vConcreteInfraction(), vConcreteInfraction()
	pend.Downtime.JailDuration = 999
	ids := make([]string, n)
	for i := 0; i < n; i++ {
		ids[i] = vh.Sprintf("%d", i)
		_ = e.k.SetInfractionParameters(e.ctx, ids[i], cur)
		_ = e.k.SetQueuedInfractionParameters(e.ctx, ids[i], pend)
		_ = e.k.AddToInfractionUpdateSchedule(e.ctx, ids[i], due)
	}
	now := e.ctx.BlockTime()
	err := e.k.BeginBlockUpdateInfractionParameters(e.ctx)
	vh.Reach("after-beginblock")
	vh.Assert(err == nil, "C20.many.no-error")
	applied, pending := 0, 0
	for i := 0; i < n; i++ {
		c, _ := e.k.GetInfractionParameters(e.ctx, ids[i])
		if c.Downtime.JailDuration == 999 {
			applied++
			vh.Assert(!e.k.HasQueuedInfractionParameters(e.ctx, ids[i]), "C20.many.applied-change-no-longer-pending")
		} else if e.k.HasQueuedInfractionParameters(e.ctx, ids[i]) {
			pending++
		}
	}
	sched, _ := e.k.GetFromInfractionUpdateSchedule(e.ctx, due)
	if !due.After(now) {
		vh.Assert(applied == 200, "C20.many.at-most-200-applied-per-block")
		vh.Assert(pending == n-200, "C20.many.rest-stays-pending")
		vh.Assert(len(sched.Ids) == n-200, "C20.many.rest-stays-scheduled-at-its-due-time")
		rm, _ := e.k.GetConsumersToBeRemoved(e.ctx, due)
		vh.Assert(len(rm.Ids) == 0, "C20.many.nothing-leaks-into-another-queue")
	} else {
		vh.Assert(applied == 0 && pending == n && len(sched.Ids) == n, "C20.many.nothing-applied-before-due-time")
	}
}

// vSameInfractionParams is the harness's own equality of infraction parameters
// (slash fraction, jail duration and tombstone flag of both infraction kinds):
// the oracle must not share code with the implementation under test.
func vSameSlashJail(a, b *types.SlashJailParameters) bool {
	if a == nil || b == nil {
		return a == nil && b == nil
	}
	return vh.And(a.SlashFraction.Equal(b.SlashFraction), vh.And(a.JailDuration == b.JailDuration, a.Tombstone == b.Tombstone))
}

func vSameInfractionParams(a, b types.InfractionParameters) bool {
	return vh.And(vSameSlashJail(a.DoubleSign, b.DoubleSign), vSameSlashJail(a.Downtime, b.Downtime))
}
