//go:build verif

package keeper

import "time"

func timeDuration(ns int64) time.Duration { return time.Duration(ns) }
