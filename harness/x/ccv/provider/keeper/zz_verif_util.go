//go:build verif

package keeper

import (
	"time"

	clienttypes "github.com/cosmos/ibc-go/v10/modules/core/02-client/types"

	"github.com/cosmos/interchain-security/v7/x/ccv/provider/types"
)

func timeDuration(ns int64) time.Duration { return time.Duration(ns) }

func vInitParams(connectionId string) types.ConsumerInitializationParameters {
	return types.ConsumerInitializationParameters{
		InitialHeight:                     clienttypes.Height{RevisionNumber: 0, RevisionHeight: 1},
		GenesisHash:                       []byte{1},
		BinaryHash:                        []byte{1},
		SpawnTime:                         time.Time{},
		UnbondingPeriod:                   1728000000000000,
		CcvTimeoutPeriod:                  2419200000000000,
		TransferTimeoutPeriod:             3600000000000,
		ConsumerRedistributionFraction:    "0.75",
		BlocksPerDistributionTransmission: 1000,
		HistoricalEntries:                 10000,
		ConnectionId:                      connectionId,
	}
}
