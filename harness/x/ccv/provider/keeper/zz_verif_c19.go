//go:build verif

package keeper

import (
	"time"

	clienttypes "github.com/cosmos/ibc-go/v10/modules/core/02-client/types"

	"github.com/cosmos/interchain-security/v7/x/ccv/provider/types"
	"github.com/cosmos/interchain-security/v7/x/ccv/vh"
)

// VerifC19ChainIdThenLaunch (lifted, public API): a consumer is created through
// MsgCreateConsumer with a spawn time, its owner optionally renames the chain
// through MsgUpdateConsumer (no initialization parameters), and the provider
// reaches the spawn time with nobody opted in.  Begin-block must not fail, and
// the failed launch must leave the consumer registered with spawn time zero.
func VerifC19ChainIdThenLaunch() {
	e, _, _, _ := vC17Env()
	e.k.accountKeeper = vAccountKeeper{}
	vStakingAllActive(e.st)
	srv := msgServer{Keeper: &e.k}
	ids := []string{"c-1", "c-2", "c"}
	spawn := vTimeIn("spawn")
	vh.Assume(!spawn.After(e.ctx.BlockTime()))
	c0 := vh.ConcretizeInt(vh.Int("chain_at_create"), 0, 2)
	rev := uint64(vh.ConcretizeInt(vh.Int("init_height_revision"), 0, 2))
	ip := vInitParams("")
	ip.InitialHeight = clienttypes.Height{RevisionNumber: rev, RevisionHeight: 1}
	ip.SpawnTime = spawn
	create := &types.MsgCreateConsumer{Submitter: vUser(0), ChainId: ids[c0], Metadata: types.ConsumerMetadata{Name: "n", Description: "d", Metadata: "m"}, InitializationParameters: &ip}
	vh.Assume(create.ValidateBasic() == nil)
	cctx, write := e.ctx.CacheContext()
	resp, err := srv.CreateConsumer(cctx, create)
	vh.Assume(err == nil) // only histories in which the creation is accepted
	write()
	cid := resp.ConsumerId
	vh.Assert(e.k.GetConsumerPhase(e.ctx, cid) == types.CONSUMER_PHASE_INITIALIZED, "C19.lift.created-initialized")
	if vh.Bool("rename") {
		c1 := vh.ConcretizeInt(vh.Int("chain_at_update"), 0, 2)
		upd := &types.MsgUpdateConsumer{Owner: vUser(0), ConsumerId: cid, NewChainId: ids[c1]}
		vh.Assume(upd.ValidateBasic() == nil)
		cctx2, write2 := e.ctx.CacheContext()
		if _, uerr := srv.UpdateConsumer(cctx2, upd); uerr == nil {
			write2()
		}
	}
	vh.Reach("before-beginblock")
	berr := e.k.BeginBlockLaunchConsumers(e.ctx)
	vh.Assert(berr == nil, "C19.begin-block-launch-never-fails")
	// nobody is opted in, so the launch fails and must be rolled back
	vh.Assert(e.k.GetConsumerPhase(e.ctx, cid) == types.CONSUMER_PHASE_REGISTERED, "C19.failed-launch-falls-back-to-registered")
	got, gerr := e.k.GetConsumerInitializationParameters(e.ctx, cid)
	vh.Assert(gerr == nil && got.SpawnTime.IsZero(), "C19.failed-launch-clears-spawn-time")
	_, hasClient := e.k.GetConsumerClientId(e.ctx, cid)
	vh.Assert(!hasClient, "C19.failed-launch-no-client")
	_, hasGen := e.k.GetConsumerGenesis(e.ctx, cid)
	vh.Assert(!hasGen, "C19.failed-launch-no-genesis")
	vs, _ := e.k.GetConsumerValSet(e.ctx, cid)
	vh.Assert(len(vs) == 0, "C19.failed-launch-no-validator-set")
	_, hasMin := e.k.GetMinimumPowerInTopN(e.ctx, cid)
	vh.Assert(!hasMin, "C19.failed-launch-no-topN-threshold")
	q, _ := e.k.GetConsumersToBeLaunched(e.ctx, spawn)
	vh.Assert(len(q.Ids) == 0, "C19.failed-launch-no-longer-scheduled")
}

// VerifC19LaunchMany: two consumers due in the same block, the launch of each
// may fail at client creation (symbolic) or for lack of opted-in validators;
// begin-block returns nil, failures are rolled back, the other consumer is
// processed as if alone.
func VerifC19LaunchMany() {
	e, _, clk, _ := vC17Env()
	vStakingAllActive(e.st)
	spawn := vTimeIn("spawn")
	vh.Assume(!spawn.After(e.ctx.BlockTime()))
	ids := []string{"1", "10"}
	opted := make([]bool, 2)
	for i, cid := range ids {
		e.k.SetConsumerChainId(e.ctx, cid, "chain")
		ip := vInitParams("")
		ip.SpawnTime = spawn
		vh.Assert(e.k.SetConsumerInitializationParameters(e.ctx, cid, ip) == nil, "C19.setup")
		vh.Assert(e.k.SetConsumerPowerShapingParameters(e.ctx, cid, types.PowerShapingParameters{}) == nil, "C19.setup")
		e.k.SetConsumerPhase(e.ctx, cid, types.CONSUMER_PHASE_INITIALIZED)
		vh.Assert(e.k.AppendConsumerToBeLaunched(e.ctx, cid, spawn) == nil, "C19.setup")
		opted[i] = vh.Bool(vh.Sprintf("opted_%d", i))
		if opted[i] {
			e.k.SetOptedIn(e.ctx, cid, types.NewProviderConsAddress(vConsAddr(0)))
		}
	}
	// client creation fails never (0), on its first call (1) or on its second call (2)
	clk.failOnCall = vh.ConcretizeInt(vh.Int("client_creation_fails_on_call"), 0, 2)
	e.st.hist = true
	vh.Reach("before-beginblock")
	berr := e.k.BeginBlockLaunchConsumers(e.ctx)
	vh.Assert(berr == nil, "C19.begin-block-launch-never-fails")
	attempts := 0
	for i, cid := range ids {
		ok := opted[i]
		if opted[i] {
			attempts++ // the launch reaches client creation (consumers are processed in queue order)
			if attempts == clk.failOnCall {
				ok = false
			}
		}
		ph := e.k.GetConsumerPhase(e.ctx, cid)
		_, hasClient := e.k.GetConsumerClientId(e.ctx, cid)
		_, hasGen := e.k.GetConsumerGenesis(e.ctx, cid)
		vs, _ := e.k.GetConsumerValSet(e.ctx, cid)
		got, _ := e.k.GetConsumerInitializationParameters(e.ctx, cid)
		if ok {
			vh.Assert(ph == types.CONSUMER_PHASE_LAUNCHED, "C19.launch-succeeds-independently")
			vh.Assert(hasClient && hasGen && len(vs) == 1, "C10.launch-records-genesis-client-and-set")
		} else {
			vh.Assert(ph == types.CONSUMER_PHASE_REGISTERED, "C19.failed-launch-falls-back-to-registered")
			vh.Assert(!hasClient && !hasGen && len(vs) == 0, "C19.failed-launch-fully-rolled-back")
			vh.Assert(got.SpawnTime.IsZero(), "C19.failed-launch-clears-spawn-time")
		}
	}
	q, _ := e.k.GetConsumersToBeLaunched(e.ctx, spawn)
	vh.Assert(len(q.Ids) == 0, "C10.due-consumers-consumed-from-queue")
	_ = time.Second
}
