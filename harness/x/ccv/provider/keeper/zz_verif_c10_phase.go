//go:build verif

package keeper

import (
	"time"

	"github.com/cosmos/interchain-security/v7/x/ccv/provider/types"
	"github.com/cosmos/interchain-security/v7/x/ccv/vh"
)

// vLaunchQueueCount: how often cid is scheduled at time t in the launch queue.
func vLaunchQueueCount(e *vEnv, cid string, t time.Time) int {
	q, _ := e.k.GetConsumersToBeLaunched(e.ctx, t)
	n := 0
	for _, id := range q.Ids {
		if id == cid {
			n++
		}
	}
	return n
}

// VerifC10UpdatePhase: MsgUpdateConsumer (owner-signed, optional initialization
// parameters with a symbolic spawn time) from any phase and any state
// satisfying the lifecycle invariant (INITIALIZED <=> non-zero spawn time and
// scheduled exactly once at it; REGISTERED => spawn time zero, not scheduled):
// the phase moves only registered <-> initialized, never out of launched /
// stopped / deleted, and the invariant holds afterwards.
func VerifC10UpdatePhase() {
	cid := "7"
	e := newVEnv(1)
	e.k.accountKeeper = vAccountKeeper{}
	e.k.SetParams(e.ctx, vParams(100, 600))
	e.k.SetConsumerOwnerAddress(e.ctx, cid, vUser(0))
	e.k.SetConsumerChainId(e.ctx, cid, "chainseven")
	vh.Assert(e.k.SetConsumerPowerShapingParameters(e.ctx, cid, types.PowerShapingParameters{}) == nil, "C10.phase.setup")
	phase0 := types.ConsumerPhase(vh.ConcretizeInt(vh.Int("phase"), 1, 5))
	e.k.SetConsumerPhase(e.ctx, cid, phase0)
	st0 := vTimeIn("spawn_pre")
	ip := vInitParams("")
	if phase0 == types.CONSUMER_PHASE_INITIALIZED {
		ip.SpawnTime = st0
		vh.Assert(e.k.AppendConsumerToBeLaunched(e.ctx, cid, st0) == nil, "C10.phase.setup")
	}
	// another consumer scheduled at the same instant must stay scheduled
	vh.Assert(e.k.AppendConsumerToBeLaunched(e.ctx, "8", st0) == nil, "C10.phase.setup")
	vh.Assert(e.k.SetConsumerInitializationParameters(e.ctx, cid, ip) == nil, "C10.phase.setup")

	msg := &types.MsgUpdateConsumer{Owner: vUser(0), ConsumerId: cid}
	withInit := vh.ConcretizeInt(vh.Int("with_init_params"), 0, 1) == 1
	st1 := vTimeIn("spawn_new")
	zeroSpawn := vh.ConcretizeInt(vh.Int("new_spawn_zero"), 0, 1) == 1
	if withInit {
		nip := vInitParams("")
		if !zeroSpawn {
			nip.SpawnTime = st1
		}
		msg.InitializationParameters = &nip
	}
	vh.Assume(msg.ValidateBasic() == nil)
	cctx, write := e.ctx.CacheContext()
	_, err := msgServer{Keeper: &e.k}.UpdateConsumer(cctx, msg)
	if err == nil {
		write()
	}
	vh.Reach("after-update")
	phase1 := e.k.GetConsumerPhase(e.ctx, cid)
	got, gerr := e.k.GetConsumerInitializationParameters(e.ctx, cid)
	vh.Assert(gerr == nil, "C10.phase.init-params-present")
	pre := phase0 == types.CONSUMER_PHASE_REGISTERED || phase0 == types.CONSUMER_PHASE_INITIALIZED
	if pre {
		vh.Assert(phase1 == types.CONSUMER_PHASE_REGISTERED || phase1 == types.CONSUMER_PHASE_INITIALIZED, "C10.phase.update-moves-only-between-registered-and-initialized")
	} else {
		vh.Assert(phase1 == phase0, "C10.phase.launched-stopped-deleted-never-change-by-update")
		vh.Assert(vh.Implies(withInit, err != nil), "C10.phase.launched-consumer-rejects-initialization-parameters")
	}
	// invariant afterwards
	spawn := got.SpawnTime
	if phase1 == types.CONSUMER_PHASE_INITIALIZED {
		vh.Assert(!spawn.IsZero(), "C10.inv.initialized-has-non-zero-spawn-time")
		vh.Assert(vLaunchQueueCount(e, cid, spawn) == 1, "C10.inv.initialized-scheduled-exactly-once-at-its-spawn-time")
		if phase0 == types.CONSUMER_PHASE_INITIALIZED && !spawn.Equal(st0) {
			vh.Assert(vLaunchQueueCount(e, cid, st0) == 0, "C10.inv.old-schedule-entry-removed")
		}
	}
	if phase1 == types.CONSUMER_PHASE_REGISTERED {
		vh.Assert(spawn.IsZero(), "C10.inv.registered-has-zero-spawn-time")
		vh.Assert(vLaunchQueueCount(e, cid, st0) == 0 && vLaunchQueueCount(e, cid, st1) == 0, "C10.inv.registered-not-scheduled")
	}
	vh.Assert(vLaunchQueueCount(e, "8", st0) == 1, "C10.phase.other-consumer-stays-scheduled")
}

// VerifC10CreateIds: consumer ids are issued once, in increasing order.
func VerifC10CreateIds() {
	e := newVEnv(1)
	e.k.accountKeeper = vAccountKeeper{}
	e.k.SetParams(e.ctx, vParams(100, 600))
	n0 := vh.Uint64("next_id")
	vh.Assume(n0 <= 1<<40)
	e.k.setConsumerId(e.ctx, n0)
	a := e.k.FetchAndIncrementConsumerId(e.ctx)
	b := e.k.FetchAndIncrementConsumerId(e.ctx)
	vh.Reach("after-fetch")
	n2, found := e.k.GetConsumerId(e.ctx)
	vh.Assert(found && n2 == n0+2, "C10.ids.counter-advances-by-one-per-consumer")
	_ = a
	_ = b
}
