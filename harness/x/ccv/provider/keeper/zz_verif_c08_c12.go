//go:build verif

package keeper

import (
	"bytes"

	"cosmossdk.io/math"

	sdk "github.com/cosmos/cosmos-sdk/types"
	stakingtypes "github.com/cosmos/cosmos-sdk/x/staking/types"

	abci "github.com/cometbft/cometbft/abci/types"
	channeltypes "github.com/cosmos/ibc-go/v10/modules/core/04-channel/types"

	"github.com/cosmos/interchain-security/v7/x/ccv/provider/types"
	ccv "github.com/cosmos/interchain-security/v7/x/ccv/types"
	"github.com/cosmos/interchain-security/v7/x/ccv/vh"
)

func vSymbolicInfractionParams(prefix string) types.InfractionParameters {
	mk := func(p string) *types.SlashJailParameters {
		f := vh.Dec(p + "_fraction")
		vh.Assume(f.GTE(math.LegacyZeroDec()))
		vh.Assume(f.LTE(math.LegacyOneDec()))
		d := vh.Int64(p + "_jail")
		vh.Assume(d >= 0)
		vh.Assume(d <= 1<<55)
		return &types.SlashJailParameters{SlashFraction: f, JailDuration: timeDuration(d), Tombstone: vh.Bool(p + "_tombstone")}
	}
	return types.InfractionParameters{DoubleSign: mk(prefix + "ds"), Downtime: mk(prefix + "dt")}
}

// VerifC08SlashPacket: one downtime / double-sign slash packet received on the
// channel of consumer "1", reported address = the consumer key of validator 0
// (assigned key, replaced-but-retained key or provider key) or an unknown address.
func VerifC08SlashPacket() {
	nv := vh.Bound("vals", 2)
	cid, other := "1", "10"
	e := newVEnv(nv)
	e.k.SetParams(e.ctx, vParams(100, 600))
	phase := types.ConsumerPhase(vh.Int64("phase"))
	vh.Assume(phase >= types.CONSUMER_PHASE_REGISTERED)
	vh.Assume(phase <= types.CONSUMER_PHASE_DELETED)
	e.k.SetConsumerPhase(e.ctx, cid, phase)
	e.k.SetConsumerPhase(e.ctx, other, types.CONSUMER_PHASE_LAUNCHED)
	e.k.SetChannelToConsumerId(e.ctx, "channel-1", cid)
	e.k.SetChannelToConsumerId(e.ctx, "channel-10", other)
	ip := vSymbolicInfractionParams("ip1_")
	vh.Assert(e.k.SetInfractionParameters(e.ctx, cid, ip) == nil, "C08.setup")
	ipOther := vSymbolicInfractionParams("ip10_")
	vh.Assert(e.k.SetInfractionParameters(e.ctx, other, ipOther) == nil, "C08.setup")
	meter0 := vh.Int64("meter")
	vh.Assume(meter0 >= -vMaxTotalVP)
	vh.Assume(meter0 <= vMaxTotalVP/2)
	e.k.SetSlashMeter(e.ctx, math.NewInt(meter0))
	vscId := vh.Uint64("vscid")
	vh.Assume(vscId <= 1<<40)
	mapped := vh.Bool("vscid_mapped")
	infrH := vh.Uint64("infraction_height")
	vh.Assume(infrH <= 1<<40)
	if vh.Guard(mapped) {
		if vscId == 0 {
			e.k.SetInitChainHeight(e.ctx, cid, infrH)
		} else {
			e.k.SetValsetUpdateBlockHeight(e.ctx, vscId, infrH)
		}
	}
	vh.EndGuard()
	// membership of each validator in consumer 1's recorded set; key assignment of validator 0
	inSet := make([]bool, nv)
	for i := 0; i < nv; i++ {
		inSet[i] = vh.Bool(vh.Sprintf("inset%d", i))
		if vh.Guard(inSet[i]) {
			pk := vPubKey(i)
			_ = e.k.SetConsumerValidator(e.ctx, cid, types.ConsensusValidator{ProviderConsAddr: vConsAddr(i), Power: 1, PublicKey: &pk})
		}
		vh.EndGuard()
	}
	// reported address: 0 = provider key of val 0 (no assignment), 1 = assigned key 100 mapped to val 0,
	// 2 = address of key 101 that nobody owns, 3 = provider key of val 1
	var reported sdk.ConsAddress
	target := -1 // validator the reported address resolves to (-1: none)
	switch vh.Bound("addrcase", 0) {
	case 0:
		reported, target = vConsAddr(0), 0
	case 1:
		reported, target = vConsAddr(100), 0
		e.k.SetValidatorByConsumerAddr(e.ctx, cid, types.NewConsumerConsAddress(reported), types.NewProviderConsAddress(vConsAddr(0)))
	case 2:
		reported = vConsAddr(101)
	default:
		reported, target = vConsAddr(1), 1
	}
	// a key assignment of the other consumer must not matter
	e.k.SetValidatorByConsumerAddr(e.ctx, other, types.NewConsumerConsAddress(vConsAddr(101)), types.NewProviderConsAddress(vConsAddr(1)))
	downtime := vh.Bool("is_downtime")
	infr := stakingtypes.Infraction_INFRACTION_DOUBLE_SIGN
	if downtime {
		infr = stakingtypes.Infraction_INFRACTION_DOWNTIME
	}
	pw := vh.Int64("reported_power")
	vh.Assume(pw >= 1)
	data := ccv.SlashPacketData{Validator: abci.Validator{Address: reported, Power: pw}, ValsetUpdateId: vscId, Infraction: infr}
	packet := channeltypes.Packet{DestinationChannel: "channel-1", DestinationPort: ccv.ProviderPortID}
	jailedBefore := make([]bool, nv)
	tombBefore := make([]bool, nv)
	effBefore := make([]int64, nv) // voting power before the packet (unbonding validators have none)
	for i := 0; i < nv; i++ {
		effBefore[i] = vh.IteInt64(e.st.isActive(i), e.st.power[i], 0)
		jailedBefore[i] = e.st.vals[i].Jailed
		tombBefore[i] = e.sl.tombstoned[i]
	}
	acksBefore := len(e.k.GetSlashAcks(e.ctx, cid))

	res, err := e.k.OnRecvSlashPacket(e.ctx, packet, data)

	vh.Reach("after-recv")
	acks := e.k.GetSlashAcks(e.ctx, cid)
	meter1 := e.k.GetSlashMeter(e.ctx).Int64()
	launched := phase == types.CONSUMER_PHASE_LAUNCHED
	vh.Assert(vh.Implies(!mapped, err != nil), "C08.unmapped-vscid-is-an-error")
	vh.Assert(vh.Implies(mapped, err == nil), "C08.mapped-vscid-no-error")
	if err != nil {
		vh.Assert(len(e.st.jailCalls) == 0, "C08.error-jails-nobody")
		vh.Assert(len(e.st.slashes) == 0, "C08.error-slashes-nobody")
		vh.Assert(meter1 == meter0, "C08.error-keeps-meter")
		vh.Assert(len(acks) == acksBefore, "C08.error-no-ack")
		return
	}
	if !downtime {
		vh.Assert(len(e.st.jailCalls) == 0, "C08.double-sign-packet-jails-nobody")
		vh.Assert(len(e.st.slashes) == 0, "C08.double-sign-packet-slashes-nobody")
		vh.Assert(len(res) == 1 && res[0] == ccv.V1Result[0], "C08.double-sign-packet-v1-result")
		vh.Assert(meter1 == meter0, "C08.double-sign-packet-keeps-meter")
		return
	}
	// expected decision
	shouldJail := false
	if target >= 0 {
		v := e.st.vals[target]
		shouldJail = vh.And(launched, vh.And(inSet[target], vh.And(!v.IsUnbonded(), vh.And(!jailedBefore[target], vh.And(!tombBefore[target], meter0 >= 0)))))
	}
	jailed := len(e.st.jailCalls) == 1
	vh.Assert(len(e.st.jailCalls) <= 1, "C08.at-most-one-jail")
	vh.Assert(jailed == shouldJail, "C08.jail-iff-conditions")
	vh.Assert(len(e.st.slashes) == len(e.st.jailCalls), "C08.slash-iff-jail")
	if jailed {
		vh.Assert(bytes.Equal(e.st.jailCalls[0], vConsAddr(target)), "C08.jails-the-owner-of-the-reported-key")
		s := e.st.slashes[0]
		vh.Assert(bytes.Equal(s.cons, vConsAddr(target)), "C08.slashes-the-owner-of-the-reported-key")
		vh.Assert(s.fraction.Equal(ip.Downtime.SlashFraction), "C08.uses-consumer-downtime-slash-fraction")
		vh.Assert(s.infraction == stakingtypes.Infraction_INFRACTION_DOWNTIME, "C08.downtime-infraction-kind")
		vh.Assert(s.height == int64(infrH), "C08.slash-at-mapped-infraction-height")
		vh.Assert(e.sl.jailUntil[target].Equal(e.ctx.BlockTime().Add(ip.Downtime.JailDuration)), "C08.jail-until-uses-consumer-jail-duration")
	}
	// throttle (C09 step lemma)
	bounced := len(res) == 1 && res[0] == ccv.SlashPacketBouncedResult[0]
	inSetT := false
	if target >= 0 {
		inSetT = inSet[target]
	}
	vh.Assert(bounced == vh.And(launched, vh.And(inSetT, meter0 < 0)), "C09.bounced-iff-meter-negative")
	if bounced {
		vh.Assert(meter1 == meter0, "C09.bounce-keeps-meter")
		vh.Assert(len(e.st.jailCalls) == 0, "C09.bounce-jails-nobody")
	}
	if jailed {
		vh.Assert(meter1 == meter0-effBefore[target], "C09.meter-deducted-by-jailed-power")
	}
	vh.Assert(meter1 <= meter0, "C09.meter-never-rises-on-packet")
	// acknowledgement
	wantAck := false
	if target >= 0 {
		v := e.st.vals[target]
		handled := vh.And(launched, vh.And(inSet[target], meter0 >= 0))
		wantAck = vh.Or(!launched, vh.Or(!inSet[target], vh.And(handled, vh.And(!v.IsUnbonded(), !tombBefore[target]))))
	} else {
		wantAck = true // unknown address resolves to itself, which is never in the set (or chain not launched)
	}
	vh.Assert((len(acks) == acksBefore+1) == wantAck, "C08.slash-ack-iff-jailed-or-declined-as-specified")
	if len(acks) == acksBefore+1 {
		vh.Assert(acks[acksBefore] == reported.String(), "C08.ack-names-the-reported-consumer-address")
	}
	// nobody else touched
	for i := 0; i < nv; i++ {
		if i != target {
			vh.Assert(e.st.vals[i].Jailed == jailedBefore[i], "C08.no-other-validator-jailed")
		}
	}
	vh.Assert(len(e.k.GetSlashAcks(e.ctx, other)) == 0, "C08.other-consumer-acks-untouched")
}

// VerifC12EndBlockCIS: the current update id is mapped to height+1, other ids keep their mapping.
func VerifC12EndBlockCIS() {
	e := newVEnv(1)
	e.k.SetParams(e.ctx, vParams(100, 600))
	id := vh.Uint64("vscid")
	vh.Assume(id <= 1<<50)
	e.k.SetValidatorSetUpdateId(e.ctx, id)
	oid := vh.Uint64("other_id")
	vh.Assume(oid <= 1<<50)
	oh := vh.Uint64("other_height")
	vh.Assume(oh <= 1<<50)
	vh.Assume(oid != id)
	e.k.SetValsetUpdateBlockHeight(e.ctx, oid, oh)
	e.k.EndBlockCIS(e.ctx)
	vh.Reach("after-endblockcis")
	h, found := e.k.GetValsetUpdateBlockHeight(e.ctx, id)
	vh.Assert(found, "C12.current-id-mapped")
	vh.Assert(h == uint64(e.ctx.BlockHeight())+1, "C12.current-id-maps-to-next-height")
	h2, found2 := e.k.GetValsetUpdateBlockHeight(e.ctx, oid)
	vh.Assert(found2 && h2 == oh, "C12.other-mappings-kept")
	vh.Assert(e.k.GetValidatorSetUpdateId(e.ctx) == id, "C12.endblockcis-keeps-id")
	// infraction-height resolution
	e.k.SetInitChainHeight(e.ctx, "1", 77)
	r0, f0 := e.k.getMappedInfractionHeight(e.ctx, "1", 0)
	vh.Assert(f0 && r0 == 77, "C12.id-zero-resolves-to-channel-open-height")
	r1, f1 := e.k.getMappedInfractionHeight(e.ctx, "1", oid)
	vh.Assert(vh.Implies(oid != 0, f1 && r1 == oh), "C12.id-resolves-to-recorded-height")
	unk := vh.Uint64("unknown_id")
	vh.Assume(unk != 0)
	vh.Assume(unk != id)
	vh.Assume(unk != oid)
	vh.Assume(unk <= 1<<50)
	_, f2 := e.k.getMappedInfractionHeight(e.ctx, "1", unk)
	vh.Assert(!f2, "C12.never-issued-id-not-resolved")
	e.k.IncrementValidatorSetUpdateId(e.ctx)
	vh.Assert(e.k.GetValidatorSetUpdateId(e.ctx) == id+1, "C12.increment-by-exactly-one")
}
