//go:build verif

package keeper

// verifHarnesses lists the harness entry points of this package for native replay.
var verifHarnesses = map[string]func(){
	"VerifC04PowerCap": VerifC04PowerCap,
	"VerifC01Diff": VerifC01Diff,
	"VerifC15ProviderSet": VerifC15ProviderSet,
	"VerifC02NextValidators": VerifC02NextValidators,
	"VerifC03MinPower": VerifC03MinPower,
	"VerifC03OptOut": VerifC03OptOut,
	"VerifC09MeterStep": VerifC09MeterStep,
	"VerifC08SlashPacket": VerifC08SlashPacket,
	"VerifC12EndBlockCIS": VerifC12EndBlockCIS,
	"VerifC10TimeQueue": VerifC10TimeQueue,
	"VerifC20UpdateQueued": VerifC20UpdateQueued,
	"VerifC20BeginBlock": VerifC20BeginBlock,
	"VerifC05AssignStep": VerifC05AssignStep,
	"VerifC06Prune": VerifC06Prune,
	"VerifC01Accumulate": VerifC01Accumulate,
	"VerifC18MapOrder": VerifC18MapOrder,
	"VerifC17Handshake": VerifC17Handshake,
	"VerifC17LaunchBinding": VerifC17LaunchBinding,
	"VerifC14UpdateConsumer": VerifC14UpdateConsumer,
	"VerifC14RemoveAndGov": VerifC14RemoveAndGov,
	"VerifC11Delete": VerifC11Delete,
	"VerifC11Stop": VerifC11Stop,
	"VerifC19ChainIdThenLaunch": VerifC19ChainIdThenLaunch,
	"VerifC19LaunchMany": VerifC19LaunchMany,
	"VerifC07DoubleVoting": VerifC07DoubleVoting,
	"VerifC05NewValidatorHook": VerifC05NewValidatorHook,
	"VerifC16Allocate": VerifC16Allocate,
	"VerifC03TopNStep": VerifC03TopNStep,
	"VerifC13Frame": VerifC13Frame,
	"VerifC01QueueVSC": VerifC01QueueVSC,
	"VerifC01SendVSC": VerifC01SendVSC,
	"VerifC20BeginBlockMany": VerifC20BeginBlockMany,
}
