//go:build verif

package keeper

// verifHarnesses lists the harness entry points of this package for native replay.
var verifHarnesses = map[string]func(){
	"VerifC04PowerCap": VerifC04PowerCap,
}
