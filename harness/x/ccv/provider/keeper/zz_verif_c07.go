//go:build verif

package keeper

import (
	"bytes"

	"cosmossdk.io/math"

	stakingtypes "github.com/cosmos/cosmos-sdk/x/staking/types"

	cmtproto "github.com/cometbft/cometbft/proto/tendermint/types"
	tmtypes "github.com/cometbft/cometbft/types"

	"github.com/cosmos/interchain-security/v7/x/ccv/provider/types"
	"github.com/cosmos/interchain-security/v7/x/ccv/vh"
)

func vVote(prefix string, addr []byte, hashByte byte) *tmtypes.Vote {
	h := vh.Int64(prefix + "_height")
	vh.Assume(h >= 1)
	vh.Assume(h <= 1<<40)
	r := vh.Int64(prefix + "_round")
	vh.Assume(r >= 0)
	vh.Assume(r <= 1000)
	ty := vh.Int64(prefix + "_type")
	vh.Assume(ty >= 1)
	vh.Assume(ty <= 2)
	hash := make([]byte, 32)
	hash[0] = hashByte
	return &tmtypes.Vote{
		Type:             cmtproto.SignedMsgType(ty),
		Height:           h,
		Round:            int32(r),
		BlockID:          tmtypes.BlockID{Hash: hash, PartSetHeader: tmtypes.PartSetHeader{Total: 1, Hash: hash}},
		ValidatorAddress: addr,
		ValidatorIndex:   0,
	}
}

// VerifC07DoubleVoting: one HandleConsumerDoubleVoting call for consumer "1"
// (chain id "chain-A", shared with consumer "10"; consumer "2" has "chain-B").
// Votes are signed by a modelled signer (key, chain id) and may be tampered
// with after signing; every field of the statement is symbolic or case split.
func VerifC07DoubleVoting() {
	nv := vh.Bound("vals", 2)
	cid := "1"
	e := newVEnv(nv)
	e.k.SetParams(e.ctx, vParams(100, 600))
	e.k.SetConsumerChainId(e.ctx, cid, "chain-A")
	e.k.SetConsumerChainId(e.ctx, "10", "chain-A")
	e.k.SetConsumerChainId(e.ctx, "2", "chain-B")
	hasClient := vh.Bool("has_client")
	if vh.Guard(hasClient) {
		e.k.SetConsumerClientId(e.ctx, cid, "07-tendermint-0")
	}
	vh.EndGuard()
	minH := vh.Uint64("min_height")
	vh.Assume(minH <= 1<<41)
	e.k.SetEquivocationEvidenceMinHeight(e.ctx, cid, minH)
	ip := vSymbolicInfractionParams("ip_")
	vh.Assert(e.k.SetInfractionParameters(e.ctx, cid, ip) == nil, "C07.setup")
	// validator 0 validates consumer 1 with assigned key 100 (symbolic: or with its provider key)
	assigned := vh.ConcretizeInt(vh.Int("assigned_key"), 0, 1) == 1
	signerKey := 0
	if assigned {
		signerKey = 100
		e.k.SetValidatorByConsumerAddr(e.ctx, cid, types.NewConsumerConsAddress(vConsAddr(100)), types.NewProviderConsAddress(vConsAddr(0)))
		e.k.SetValidatorConsumerPubKey(e.ctx, cid, types.NewProviderConsAddress(vConsAddr(0)), vPubKey(100))
	}
	// stake that is still unbonding / redelegating from validator 0
	ubd := vh.BigInt("unbonding_tokens")
	vh.Assume(ubd.GTE(math.ZeroInt()))
	vh.Assume(ubd.LTE(math.NewInt(1 << 50)))
	red := vh.BigInt("redelegating_tokens")
	vh.Assume(red.GTE(math.ZeroInt()))
	vh.Assume(red.LTE(math.NewInt(1 << 50)))
	e.st.ubds[0] = []stakingtypes.UnbondingDelegation{{}}
	e.st.reds[0] = []stakingtypes.Redelegation{{}}
	e.st.ubdSlash, e.st.redSlash = ubd, red

	// evidence
	addrCase := vh.Bound("addrcase", 0) // 0: both votes by the signer key; 1: vote B names another address
	addrA := vConsAddr(signerKey)
	addrB := addrA
	if addrCase == 1 {
		addrB = vConsAddr(101)
	}
	hashB := byte(2)
	if vh.ConcretizeInt(vh.Int("same_block_id"), 0, 1) == 1 {
		hashB = 1
	}
	va := vVote("a", addrA, 1)
	vb := vVote("b", addrB, hashB)
	chains := []string{"chain-A", "chain-B"}
	chainA := vh.ConcretizeInt(vh.Int("a_signed_for_chain"), 0, 1)
	chainB := vh.ConcretizeInt(vh.Int("b_signed_for_chain"), 0, 1)
	keyA, keyB := signerKey, signerKey
	if vh.ConcretizeInt(vh.Int("a_signed_by_other_key"), 0, 1) == 1 {
		keyA = 101
	}
	if vh.ConcretizeInt(vh.Int("b_signed_by_other_key"), 0, 1) == 1 {
		keyB = 101
	}
	va.Signature = vh.SignBytes(keyA, tmtypes.VoteSignBytes(chains[chainA], va.ToProto()))
	vb.Signature = vh.SignBytes(keyB, tmtypes.VoteSignBytes(chains[chainB], vb.ToProto()))
	// tampering after signing
	tamperA := vh.Int64("a_height_tamper")
	vh.Assume(tamperA >= 0)
	vh.Assume(tamperA <= 3)
	va.Height += tamperA
	ev := &tmtypes.DuplicateVoteEvidence{VoteA: va, VoteB: vb}
	pkIdx := signerKey
	if vh.ConcretizeInt(vh.Int("submit_other_pubkey"), 0, 1) == 1 {
		pkIdx = 101
	}
	jailedBefore := e.st.vals[0].Jailed
	tombBefore := e.sl.tombstoned[0]
	powerBefore := vh.IteInt64(e.st.isActive(0), e.st.power[0], 0)
	unbonded := e.st.vals[0].IsUnbonded()

	err := e.k.HandleConsumerDoubleVoting(e.ctx, cid, ev, vSdkPubKey(pkIdx))

	vh.Reach("after-handle")
	valid := vh.And(hasClient, uint64(va.Height) >= minH)
	valid = vh.And(valid, pkIdx == signerKey && addrCase == 0 && hashB != 1)
	valid = vh.And(valid, vh.And(va.Height == vb.Height, vh.And(va.Round == vb.Round, va.Type == vb.Type)))
	valid = vh.And(valid, keyA == signerKey && keyB == signerKey && chainA == 0 && chainB == 0)
	valid = vh.And(valid, tamperA == 0)
	punishable := vh.And(!unbonded, !tombBefore)
	vh.Assert((err == nil) == vh.And(valid, punishable), "C07.accepted-iff-evidence-valid-and-validator-punishable")
	if err != nil {
		// nothing of the punishment may have happened... except that slashing precedes jailing:
		// a validator that cannot be slashed is rejected before any stub call
		vh.Assert(len(e.st.slashes) == 0, "C07.rejected-evidence-slashes-nobody")
		vh.Assert(len(e.st.jailCalls) == 0, "C07.rejected-evidence-jails-nobody")
		vh.Assert(e.sl.tombCalls == 0, "C07.rejected-evidence-tombstones-nobody")
		return
	}
	vh.Assert(len(e.st.slashes) == 1, "C07.exactly-one-slash")
	s := e.st.slashes[0]
	vh.Assert(bytes.Equal(s.cons, vConsAddr(0)), "C07.slashes-the-validator-owning-the-signing-key")
	vh.Assert(s.fraction.Equal(ip.DoubleSign.SlashFraction), "C07.uses-consumer-double-sign-slash-fraction")
	vh.Assert(s.infraction == stakingtypes.Infraction_INFRACTION_DOUBLE_SIGN, "C07.double-sign-infraction-kind")
	wantPower := powerBefore + ubd.Add(red).Quo(math.NewInt(1000000)).Int64()
	vh.Assert(s.power == wantPower, "C07.slashed-power-counts-unbonding-and-redelegating-stake")
	vh.Assert(e.st.vals[0].Jailed, "C07.validator-jailed")
	vh.Assert((len(e.st.jailCalls) == 1) == !jailedBefore, "C07.jail-call-iff-not-already-jailed")
	vh.Assert(e.sl.jailUntil[0].Equal(e.ctx.BlockTime().Add(ip.DoubleSign.JailDuration)), "C07.jailed-until-now-plus-consumer-jail-duration")
	vh.Assert(e.sl.tombstoned[0] == ip.DoubleSign.Tombstone, "C07.tombstoned-iff-configured")
	for i := 1; i < nv; i++ {
		vh.Assert(!vh.And(e.st.vals[i].Jailed, !vh.Bool(vh.Sprintf("jailed%d", i))), "C07.no-other-validator-jailed")
	}
	// a second submission with tombstoning enabled punishes nobody again
	err2 := e.k.HandleConsumerDoubleVoting(e.ctx, cid, ev, vSdkPubKey(pkIdx))
	if ip.DoubleSign.Tombstone {
		vh.Assert(err2 != nil, "C07.tombstoned-validator-not-punished-twice")
		vh.Assert(len(e.st.slashes) == 1, "C07.no-second-slash-after-tombstone")
	}
}
