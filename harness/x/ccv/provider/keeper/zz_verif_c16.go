//go:build verif

package keeper

import (
	"bytes"
	"context"
	"errors"

	"cosmossdk.io/math"

	sdk "github.com/cosmos/cosmos-sdk/types"
	stakingtypes "github.com/cosmos/cosmos-sdk/x/staking/types"

	"github.com/cosmos/interchain-security/v7/x/ccv/provider/types"
	ccvtypes "github.com/cosmos/interchain-security/v7/x/ccv/types"
	"github.com/cosmos/interchain-security/v7/x/ccv/vh"
)

const vDenom = "stake"

// ---- bank / distribution / account stubs (single denom universe)

type vBank struct {
	ccvtypes.BankKeeper
	bal        map[string]math.Int // module account -> balance of vDenom
	failSend   bool
	failOnSend int // when > 0: only the failOnSend-th send fails
	sends      int
}

func (b *vBank) SendCoinsFromModuleToModule(ctx context.Context, senderModule, recipientModule string, amt sdk.Coins) error {
	b.sends++
	if b.failSend || (b.failOnSend > 0 && b.sends == b.failOnSend) {
		return errors.New("bank: send failed")
	}
	for _, c := range amt {
		if b.bal[senderModule].LT(c.Amount) {
			return errors.New("bank: insufficient funds")
		}
	}
	for _, c := range amt {
		b.bal[senderModule] = b.bal[senderModule].Sub(c.Amount)
		b.bal[recipientModule] = b.bal[recipientModule].Add(c.Amount)
	}
	return nil
}

type vAllocRec struct {
	cons   sdk.ConsAddress
	rate   math.LegacyDec
	amount math.LegacyDec
}

type vDistr struct {
	ccvtypes.DistributionKeeper
	bank     *vBank
	tax      math.LegacyDec
	funded   math.Int // total sent to the community pool
	allocs   []vAllocRec
	failFund bool
}

func (d *vDistr) GetCommunityTax(ctx context.Context) (math.LegacyDec, error) { return d.tax, nil }

func (d *vDistr) FundCommunityPool(ctx context.Context, amount sdk.Coins, sender sdk.AccAddress) error {
	if d.failFund {
		return errors.New("distribution: fund failed")
	}
	for _, c := range amount {
		if d.bank.bal[types.ConsumerRewardsPool].LT(c.Amount) {
			return errors.New("distribution: insufficient funds")
		}
		d.bank.bal[types.ConsumerRewardsPool] = d.bank.bal[types.ConsumerRewardsPool].Sub(c.Amount)
		d.funded = d.funded.Add(c.Amount)
	}
	return nil
}

func (d *vDistr) AllocateTokensToValidator(ctx context.Context, val stakingtypes.ValidatorI, reward sdk.DecCoins) error {
	amt := math.LegacyZeroDec()
	for _, c := range reward {
		amt = amt.Add(c.Amount)
	}
	cons, _ := val.GetConsAddr()
	d.allocs = append(d.allocs, vAllocRec{cons: cons, rate: val.GetCommission(), amount: amt})
	return nil
}

type vModAcc struct {
	sdk.ModuleAccountI
	addr sdk.AccAddress
}

func (m vModAcc) GetAddress() sdk.AccAddress { return m.addr }

type vAccountKeeper2 struct{ vAccountKeeper }

func (vAccountKeeper2) GetModuleAccount(ctx context.Context, name string) sdk.ModuleAccountI {
	b := make([]byte, 20)
	b[0] = 0xEE
	return vModAcc{addr: sdk.AccAddress(b)}
}

// VerifC16Allocate: AllocateConsumerRewards for one (consumer, denom) credit:
// conservation between credit, distribution module, community pool and the
// remaining credit; payouts only to eligible members in proportion to power
// under the per-consumer commission; failures leave everything unchanged.
func VerifC16Allocate() {
	nv := vh.Bound("vals", 2)
	cid := "1"
	e := newVEnv(nv)
	p := vParams(100, vh.Int64("blocks_per_epoch"))
	vh.Assume(p.BlocksPerEpoch >= 1)
	vh.Assume(p.BlocksPerEpoch <= 1000)
	p.NumberOfEpochsToStartReceivingRewards = vh.Int64("epochs_to_rewards")
	vh.Assume(p.NumberOfEpochsToStartReceivingRewards >= 0)
	vh.Assume(p.NumberOfEpochsToStartReceivingRewards <= 100)
	e.k.SetParams(e.ctx, p)
	e.k.SetConsumerChainId(e.ctx, cid, "chain")
	bank := &vBank{bal: map[string]math.Int{}}
	pool := vh.BigInt("pool_balance")
	vh.Assume(pool.GTE(math.ZeroInt()))
	vh.Assume(pool.LTE(math.NewInt(1 << 60)))
	bank.bal[types.ConsumerRewardsPool] = pool
	bank.bal["distribution"] = math.ZeroInt()
	bank.failSend = vh.Bool("bank_send_fails")
	tax := vh.Dec("community_tax")
	vh.Assume(tax.GTE(math.LegacyZeroDec()))
	vh.Assume(tax.LTE(math.LegacyOneDec()))
	distr := &vDistr{bank: bank, tax: tax, funded: math.ZeroInt(), failFund: vh.Bool("fund_fails")}
	e.k.bankKeeper, e.k.distributionKeeper, e.k.accountKeeper = bank, distr, vAccountKeeper2{}
	// consumer validator set: membership, power, join height symbolic
	member := make([]bool, nv)
	power := make([]int64, nv)
	join := make([]int64, nv)
	hasRate := make([]bool, nv)
	rate := make([]math.LegacyDec, nv)
	for i := 0; i < nv; i++ {
		member[i] = vh.Bool(vh.Sprintf("member%d", i))
		power[i] = vh.Int64(vh.Sprintf("cpower%d", i))
		vh.Assume(power[i] >= 1)
		vh.Assume(power[i] <= 1<<40)
		join[i] = vh.Int64(vh.Sprintf("join%d", i))
		vh.Assume(join[i] >= 0)
		vh.Assume(join[i] <= 1<<40)
		if vh.Guard(member[i]) {
			pk := vPubKey(i)
			_ = e.k.SetConsumerValidator(e.ctx, cid, types.ConsensusValidator{ProviderConsAddr: vConsAddr(i), Power: power[i], PublicKey: &pk, JoinHeight: join[i]})
		}
		vh.EndGuard()
		hasRate[i] = vh.Bool(vh.Sprintf("hasrate%d", i))
		rate[i] = vh.Dec(vh.Sprintf("rate%d", i))
		vh.Assume(rate[i].GTE(math.LegacyZeroDec()))
		vh.Assume(rate[i].LTE(math.LegacyOneDec()))
		if vh.Guard(hasRate[i]) {
			_ = e.k.SetConsumerCommissionRate(e.ctx, cid, types.NewProviderConsAddress(vConsAddr(i)), rate[i])
		}
		vh.EndGuard()
	}
	credit := vh.Dec("credit")
	vh.Assume(credit.GT(math.LegacyZeroDec()))
	vh.Assume(credit.LTE(math.LegacyNewDec(1 << 50)))
	// credits never exceed what sits in the pool (conservation invariant of the crediting step)
	vh.Assume(credit.LTE(math.LegacyNewDecFromInt(pool)))
	alloc := types.ConsumerRewardsAllocation{Rewards: sdk.DecCoins{sdk.DecCoin{Denom: vDenom, Amount: credit}}}

	out, err := e.k.AllocateConsumerRewards(e.ctx, cid, alloc)

	vh.Reach("after-allocate")
	remaining := math.LegacyZeroDec()
	for _, c := range out.Rewards {
		remaining = remaining.Add(c.Amount)
	}
	toDistr := bank.bal["distribution"]
	toPool := distr.funded
	poolAfter := bank.bal[types.ConsumerRewardsPool]
	if err != nil {
		// the caller discards a failed allocation (cache context); the stubs must not have paid validators
		vh.Assert(len(distr.allocs) == 0 || !bank.failSend, "C16.failed-bank-send-pays-nobody")
		return
	}
	eligible := make([]bool, nv)
	totalPower := int64(0)
	need := p.NumberOfEpochsToStartReceivingRewards * p.BlocksPerEpoch
	for i := 0; i < nv; i++ {
		eligible[i] = vh.And(member[i], e.ctx.BlockHeight()-join[i] >= need)
		totalPower += vh.IteInt64(eligible[i], power[i], 0)
	}
	// conservation
	vh.Assert(credit.Equal(remaining.Add(math.LegacyNewDecFromInt(toDistr)).Add(math.LegacyNewDecFromInt(toPool))), "C16.credit-equals-paid-plus-community-pool-plus-remaining-credit")
	vh.Assert(pool.Equal(poolAfter.Add(toDistr).Add(toPool)), "C16.pool-balance-falls-by-exactly-what-was-moved")
	vh.Assert(remaining.GTE(math.LegacyZeroDec()), "C16.remaining-credit-non-negative")
	vh.Assert(remaining.LT(math.LegacyNewDec(2)), "C16.only-rounding-remainders-stay-credited")
	paid := math.LegacyZeroDec()
	for _, a := range distr.allocs {
		i := e.st.idxByCons(a.cons)
		vh.Assert(i >= 0 && eligible[i], "C16.payout-only-to-eligible-members-of-the-consumer-set")
		paid = paid.Add(a.amount)
		want := math.LegacyNewDecFromInt(toDistr).MulTruncate(math.LegacyNewDec(power[i]).QuoTruncate(math.LegacyNewDec(totalPower)))
		vh.Assert(a.amount.Equal(want), "C16.payout-proportional-to-consumer-voting-power")
		if hasRate[i] {
			vh.Assert(a.rate.Equal(rate[i]), "C16.per-consumer-commission-rate-applied")
		}
		vh.Assert(bytes.Equal(a.cons, vConsAddr(i)), "C16.payout-addressed-to-provider-validator")
	}
	vh.Assert(paid.LTE(math.LegacyNewDecFromInt(toDistr)), "C16.never-more-paid-out-than-moved-to-distribution")
	if totalPower == 0 {
		vh.Assert(toDistr.IsZero() && len(distr.allocs) == 0, "C16.no-eligible-validator-everything-to-community-pool")
	}
}

func vCreditOf(e *vEnv, cid string) math.LegacyDec {
	a, err := e.k.GetConsumerRewardsAllocationByDenom(e.ctx, cid, vDenom)
	if err != nil {
		return math.LegacyZeroDec()
	}
	t := math.LegacyZeroDec()
	for _, c := range a.Rewards {
		t = t.Add(c.Amount)
	}
	return t
}

// VerifC16AllocateLoop: AllocateTokens over two consumers that share a
// registered denom, with a bank failure injected for the first, the second or
// no allocation: a failing consumer keeps its credit and receives nothing, the
// other one is processed; over both, pool balance + credits change only by what
// was moved to the distribution account and the community pool; credits in a
// denom that is neither registered nor allow-listed are never paid.
func VerifC16AllocateLoop() {
	e := newVEnv(1)
	e.k.SetParams(e.ctx, vParams(100, 10))
	vStakingAllActive(e.st)
	bank := &vBank{bal: map[string]math.Int{}}
	bank.bal[types.ConsumerRewardsPool] = math.NewInt(1 << 61)
	bank.bal["distribution"] = math.ZeroInt()
	// the arithmetic of one allocation is VerifC16Allocate's subject; here the tax is a constant so
	// that the two allocations stay linear for the solver
	tax := math.LegacyNewDecWithPrec(2, 2)
	distr := &vDistr{bank: bank, tax: tax, funded: math.ZeroInt()}
	e.k.bankKeeper, e.k.distributionKeeper, e.k.accountKeeper = bank, distr, vAccountKeeper2{}
	registered := vh.ConcretizeInt(vh.Int("denom_registered"), 0, 1) == 1
	if registered {
		e.k.SetConsumerRewardDenom(e.ctx, vDenom)
	}
	ids := []string{"1", "10"}
	credit := make([]math.LegacyDec, 2)
	allow := make([]bool, 2)
	for i, cid := range ids {
		e.k.SetConsumerChainId(e.ctx, cid, "chain")
		e.k.SetConsumerClientId(e.ctx, cid, vh.Sprintf("07-tendermint-%d", i))
		pk := vPubKey(0)
		_ = e.k.SetConsumerValidator(e.ctx, cid, types.ConsensusValidator{ProviderConsAddr: vConsAddr(0), Power: 5, PublicKey: &pk, JoinHeight: 0})
		credit[i] = vh.Dec(vh.Sprintf("credit%d", i))
		vh.Assume(credit[i].GT(math.LegacyZeroDec()))
		vh.Assume(credit[i].LTE(math.LegacyNewDec(1 << 50)))
		_ = e.k.SetConsumerRewardsAllocationByDenom(e.ctx, cid, vDenom, types.ConsumerRewardsAllocation{Rewards: sdk.DecCoins{sdk.DecCoin{Denom: vDenom, Amount: credit[i]}}})
		allow[i] = vh.ConcretizeInt(vh.Int(vh.Sprintf("allowlisted%d", i)), 0, 1) == 1
		if allow[i] {
			_ = e.k.SetAllowlistedRewardDenoms(e.ctx, cid, []string{vDenom})
		}
	}
	vh.Assume(e.ctx.BlockHeight() >= 240) // validators joined at height 0 are eligible (24 epochs x 10 blocks)
	bank.failOnSend = vh.ConcretizeInt(vh.Int("bank_fails_on_send"), 0, 2)
	pool0 := bank.bal[types.ConsumerRewardsPool]

	e.k.AllocateTokens(e.ctx)

	vh.Reach("after-allocate-tokens")
	moved := math.LegacyZeroDec()
	for i, cid := range ids {
		payable := registered || allow[i]
		after := vCreditOf(e, cid)
		if !payable {
			vh.Assert(after.Equal(credit[i]), "C16.loop.unregistered-denom-never-paid")
			continue
		}
		// an allocation either happens completely or leaves the credit untouched
		vh.Assert(vh.Or(after.Equal(credit[i]), after.LT(math.LegacyNewDec(2))), "C16.loop.allocation-is-all-or-nothing-per-consumer")
		if bank.failOnSend == 0 {
			vh.Assert(after.LT(math.LegacyNewDec(2)), "C16.loop.payable-credit-is-paid-when-nothing-fails")
		}
		moved = moved.Add(credit[i].Sub(after))
	}
	out := math.LegacyNewDecFromInt(bank.bal["distribution"]).Add(math.LegacyNewDecFromInt(distr.funded))
	vh.Assert(moved.Equal(out), "C16.loop.credits-fall-by-exactly-what-left-the-pool")
	vh.Assert(pool0.Equal(bank.bal[types.ConsumerRewardsPool].Add(bank.bal["distribution"]).Add(distr.funded)), "C16.loop.no-tokens-created-or-lost")
}
