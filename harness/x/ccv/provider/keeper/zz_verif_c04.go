//go:build verif

package keeper

import (
	"cosmossdk.io/math"

	"github.com/cosmos/interchain-security/v7/x/ccv/provider/types"
	"github.com/cosmos/interchain-security/v7/x/ccv/vh"
)

// VerifC04PowerCap: contract of NoMoreThanPercentOfTheSum for every power
// vector of length n (bound "n") and every percent in 1..100.
func VerifC04PowerCap() {
	n := vh.Bound("n", 3)
	maxP := int64(1) << uint(vh.Bound("log2maxpower", 60))
	vals := make([]types.ConsensusValidator, n)
	in := make([]int64, n)
	total := int64(0)
	for i := 0; i < n; i++ {
		p := vh.Int64(vh.Sprintf("p%d", i))
		vh.Assume(p >= 1)
		vh.Assume(p <= maxP)
		vals[i] = types.ConsensusValidator{ProviderConsAddr: []byte{byte(i)}, Power: p}
		in[i] = p
		total += p
	}
	pct := vh.Uint32("pct")
	vh.Assume(pct >= 1)
	vh.Assume(pct <= 100)

	out := NoMoreThanPercentOfTheSum(vals, pct)

	vh.Reach("after-cap")
	vh.Assume(total <= 1152921504606846975) // CometBFT MaxTotalVotingPower
	capV := math.NewInt(total).MulRaw(int64(pct)).QuoRaw(100).Int64() // floor(total*pct/100) in unbounded arithmetic
	achievable := vh.And(capV >= 1, total <= int64(n)*capV)
	vh.Assert(len(out) == n, "C04.cap.len")
	// identity permutation + per-validator facts
	outOf := make([]int64, n)
	seen := make([]bool, n)
	for _, o := range out {
		id := int(o.ProviderConsAddr[0])
		vh.Assert(!seen[id], "C04.cap.permutation")
		seen[id] = true
		outOf[id] = o.Power
	}
	sumOut := int64(0)
	allLe, allGe1, allEq := true, true, true
	eff := vh.IteInt64(capV >= 1, capV, 1)
	for i := 0; i < n; i++ {
		sumOut += outOf[i]
		allLe = vh.And(allLe, outOf[i] <= capV)
		allGe1 = vh.And(allGe1, outOf[i] >= 1)
		allEq = vh.And(allEq, outOf[i] == eff)
	}
	order := true
	for i := 0; i < n; i++ {
		for j := 0; j < n; j++ {
			if i != j {
				order = vh.And(order, vh.Implies(in[i] > in[j], outOf[i] >= outOf[j]))
			}
		}
	}
	mp := math.LegacyNewDec(total).Mul(math.LegacyNewDec(int64(pct))).QuoInt64(100).TruncateInt64()
	vh.Show("mp", mp)
	vh.Show("capV", capV)
	vh.Show("total", total)
	vh.Show("sumOut", sumOut)
	for i := 0; i < n; i++ {
		vh.Show(vh.Sprintf("out%d", i), outOf[i])
	}
	vh.Assert(vh.Implies(achievable, sumOut == total), "C04.cap.sum-preserved")
	vh.Assert(vh.Implies(achievable, allLe), "C04.cap.no-validator-above-cap")
	vh.Assert(allGe1, "C04.cap.nobody-zero")
	vh.Assert(vh.Implies(achievable, order), "C04.cap.order-preserved")
	vh.Assert(vh.Implies(!achievable, allEq), "C04.cap.unachievable-all-equal")
}

// VerifC04SetCap: validator-set cap and priority list inside the full
// computation (ComputeNextValidators) for an opt-in consumer: the result is a
// set of min(k, #eligible) eligible validators, and no excluded eligible
// validator strictly outranks an included one (priority-listed first, then
// descending voting power).  With Top-N > 0 the cap is a no-op.
func VerifC04SetCap() {
	nv := vh.Bound("vals", 3)
	cid := "1"
	e := newVEnv(nv)
	e.k.SetParams(e.ctx, vParams(100, 600))
	vStakingContract(e.st)
	opted := make([]bool, nv)
	prio := make([]bool, nv)
	for i := 0; i < nv; i++ {
		pa := types.NewProviderConsAddress(vConsAddr(i))
		opted[i] = vh.Bool(vh.Sprintf("opted%d", i))
		if vh.Guard(opted[i]) {
			e.k.SetOptedIn(e.ctx, cid, pa)
		}
		vh.EndGuard()
		prio[i] = vh.Bool(vh.Sprintf("prio%d", i))
		if vh.Guard(prio[i]) {
			e.k.SetPrioritylist(e.ctx, cid, pa)
		}
		vh.EndGuard()
	}
	capK := vh.Uint32("cap")
	vh.Assume(capK <= uint32(nv)+1)
	topN := vh.Uint32("topN")
	vh.Assume(vh.Or(topN == 0, vh.And(topN >= 50, topN <= 100)))
	minPower := vh.Int64("minPower")
	vh.Assume(minPower >= 0)
	psp := types.PowerShapingParameters{Top_N: topN, ValidatorSetCap: capK, AllowInactiveVals: true}
	bonded, err := e.st.GetBondedValidatorsByPower(e.ctx)
	vh.Assert(err == nil, "C04.setcap.setup")
	next, err := e.k.ComputeNextValidators(e.ctx, cid, bonded, psp, minPower)
	vh.Reach("after-compute")
	vh.Assert(err == nil, "C04.setcap.no-error")

	eligible := make([]bool, nv)
	nEligible := int64(0)
	for i := 0; i < nv; i++ {
		eligible[i] = vh.And(e.st.isActive(i), vh.Or(opted[i], vh.And(topN > 0, e.st.power[i] >= minPower)))
		nEligible += vh.IteInt64(eligible[i], 1, 0)
	}
	got := make([]bool, nv)
	for _, v := range next {
		i := e.st.idxByCons(v.ProviderConsAddr)
		vh.Assert(i >= 0, "C04.setcap.member-is-known-validator")
		vh.Assert(!got[i], "C04.setcap.no-duplicates")
		got[i] = true
		vh.Assert(eligible[i], "C04.setcap.member-eligible")
		vh.Assert(v.Power == e.st.power[i], "C04.setcap.power-unchanged")
	}
	capped := vh.And(topN == 0, vh.And(capK > 0, int64(capK) < nEligible))
	want := vh.IteInt64(capped, int64(capK), nEligible)
	vh.Show("nEligible", nEligible)
	vh.Show("len", int64(len(next)))
	vh.Assert(int64(len(next)) == want, "C04.setcap.size-is-min-of-cap-and-eligible")
	for x := 0; x < nv; x++ {
		for i := 0; i < nv; i++ {
			if x == i {
				continue
			}
			outranks := vh.Or(vh.And(prio[x], !prio[i]), vh.And(prio[x] == prio[i], e.st.power[x] > e.st.power[i]))
			bad := vh.And(vh.And(eligible[x], !got[x]), vh.And(got[i], outranks))
			vh.Assert(!bad, "C04.setcap.no-excluded-validator-outranks-an-included-one")
		}
	}
}
