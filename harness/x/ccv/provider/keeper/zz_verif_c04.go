//go:build verif

package keeper

import (
	"cosmossdk.io/math"

	"github.com/cosmos/interchain-security/v7/x/ccv/provider/types"
	"github.com/cosmos/interchain-security/v7/x/ccv/vh"
)

// VerifC04PowerCap: contract of NoMoreThanPercentOfTheSum for every power
// vector of length n (bound "n") and every percent in 1..100.
func VerifC04PowerCap() {
	n := vh.Bound("n", 3)
	maxP := int64(1) << uint(vh.Bound("log2maxpower", 60))
	vals := make([]types.ConsensusValidator, n)
	in := make([]int64, n)
	total := int64(0)
	for i := 0; i < n; i++ {
		p := vh.Int64(vh.Sprintf("p%d", i))
		vh.Assume(p >= 1)
		vh.Assume(p <= maxP)
		vals[i] = types.ConsensusValidator{ProviderConsAddr: []byte{byte(i)}, Power: p}
		in[i] = p
		total += p
	}
	pct := vh.Uint32("pct")
	vh.Assume(pct >= 1)
	vh.Assume(pct <= 100)

	out := NoMoreThanPercentOfTheSum(vals, pct)

	vh.Reach("after-cap")
	vh.Assume(total <= 1152921504606846975) // CometBFT MaxTotalVotingPower
	capV := math.NewInt(total).MulRaw(int64(pct)).QuoRaw(100).Int64() // floor(total*pct/100) in unbounded arithmetic
	achievable := vh.And(capV >= 1, total <= int64(n)*capV)
	vh.Assert(len(out) == n, "C04.cap.len")
	// identity permutation + per-validator facts
	outOf := make([]int64, n)
	seen := make([]bool, n)
	for _, o := range out {
		id := int(o.ProviderConsAddr[0])
		vh.Assert(!seen[id], "C04.cap.permutation")
		seen[id] = true
		outOf[id] = o.Power
	}
	sumOut := int64(0)
	allLe, allGe1, allEq := true, true, true
	eff := vh.IteInt64(capV >= 1, capV, 1)
	for i := 0; i < n; i++ {
		sumOut += outOf[i]
		allLe = vh.And(allLe, outOf[i] <= capV)
		allGe1 = vh.And(allGe1, outOf[i] >= 1)
		allEq = vh.And(allEq, outOf[i] == eff)
	}
	order := true
	for i := 0; i < n; i++ {
		for j := 0; j < n; j++ {
			if i != j {
				order = vh.And(order, vh.Implies(in[i] > in[j], outOf[i] >= outOf[j]))
			}
		}
	}
	mp := math.LegacyNewDec(total).Mul(math.LegacyNewDec(int64(pct))).QuoInt64(100).TruncateInt64()
	vh.Show("mp", mp)
	vh.Show("capV", capV)
	vh.Show("total", total)
	vh.Show("sumOut", sumOut)
	for i := 0; i < n; i++ {
		vh.Show(vh.Sprintf("out%d", i), outOf[i])
	}
	vh.Assert(vh.Implies(achievable, sumOut == total), "C04.cap.sum-preserved")
	vh.Assert(vh.Implies(achievable, allLe), "C04.cap.no-validator-above-cap")
	vh.Assert(allGe1, "C04.cap.nobody-zero")
	vh.Assert(vh.Implies(achievable, order), "C04.cap.order-preserved")
	vh.Assert(vh.Implies(!achievable, allEq), "C04.cap.unachievable-all-equal")
}
