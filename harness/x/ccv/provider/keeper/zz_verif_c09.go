//go:build verif

package keeper

import (
	"time"

	"cosmossdk.io/math"

	sdk "github.com/cosmos/cosmos-sdk/types"

	"github.com/cosmos/interchain-security/v7/x/ccv/provider/types"
	"github.com/cosmos/interchain-security/v7/x/ccv/vh"
)

const vMaxTotalVP = int64(1152921504606846975) // CometBFT MaxTotalVotingPower

// VerifC09MeterStep: one begin-block of the slash meter from an arbitrary
// stored meter / candidate time / total power.
func VerifC09MeterStep() {
	nv := vh.Bound("vals", 2)
	e := newVEnv(nv)
	p := vParams(100, 600)
	period := vh.Int64("period")
	vh.Assume(period >= 1)
	vh.Assume(period <= 1<<55)
	p.SlashMeterReplenishPeriod = time.Duration(period)
	switch vh.Bound("fraction", 0) {
	case 0:
		p.SlashMeterReplenishFraction = "0.05"
	case 1:
		p.SlashMeterReplenishFraction = "1.0"
	default:
		p.SlashMeterReplenishFraction = "0.0001"
	}
	e.k.SetParams(e.ctx, p)
	total := int64(0)
	for i := 0; i < nv; i++ {
		total += vh.IteInt64(e.st.isActive(i), e.st.power[i], 0)
	}
	vh.Assume(total <= vMaxTotalVP)
	meter0 := vh.Int64("meter")
	vh.Assume(meter0 >= -vMaxTotalVP)
	vh.Assume(meter0 <= vMaxTotalVP)
	e.k.SetSlashMeter(e.ctx, math.NewInt(meter0))
	cand0 := vh.Time("candidate")
	vh.Assume(cand0.UnixNano() >= 0)
	vh.Assume(cand0.UnixNano() <= 4100000000000000000)
	store := e.ctx.KVStore(e.key)
	store.Set(types.SlashMeterReplenishTimeCandidateKey(), sdk.FormatTimeBytes(cand0))
	now := e.ctx.BlockTime()

	e.k.CheckForSlashMeterReplenishment(e.ctx)

	vh.Reach("after-beginblock")
	allowance := e.k.GetSlashMeterAllowance(e.ctx).Int64()
	meter1 := e.k.GetSlashMeter(e.ctx).Int64()
	cand1 := e.k.GetSlashMeterReplenishTimeCandidate(e.ctx)
	due := !now.Before(cand0)
	vh.Assert(allowance >= 1, "C09.allowance-at-least-1")
	vh.Assert(meter1 <= allowance, "C09.meter-at-most-allowance-after-beginblock")
	vh.Assert(meter1-meter0 <= allowance, "C09.meter-rises-by-at-most-one-allowance")
	vh.Assert(vh.Implies(!due, meter1 <= meter0), "C09.no-replenish-before-candidate-time")
	vh.Assert(vh.Implies(due, meter1 == vh.IteInt64(meter0+allowance > allowance, allowance, meter0+allowance)), "C09.replenish-adds-one-allowance-capped")
	vh.Assert(vh.Implies(vh.Or(due, meter1 == allowance), cand1.Equal(now.Add(time.Duration(period)))), "C09.candidate-pushed-one-period-after-replenish-or-full")
	vh.Assert(vh.Implies(vh.And(!due, meter1 < allowance), cand1.Equal(cand0)), "C09.candidate-kept-otherwise")
	// exact allowance: banker's rounding of fraction * total power, at least 1
	vh.Show("allowance", allowance)
	vh.Show("total", total)
}
