//go:build verif

package keeper

import (
	abci "github.com/cometbft/cometbft/abci/types"

	ccv "github.com/cosmos/interchain-security/v7/x/ccv/types"
	"github.com/cosmos/interchain-security/v7/x/ccv/vh"
)

// vSymbolicUpdates: an arbitrary duplicate-free validator-update list over the
// key universe (membership symbolic, powers symbolic >= 0, 0 = removal).
func vSymbolicUpdates(prefix string, k int) []abci.ValidatorUpdate {
	var out []abci.ValidatorUpdate
	for j := 0; j < k; j++ {
		if vh.Bool(vh.Sprintf("%s_in%d", prefix, j)) {
			p := vh.Int64(vh.Sprintf("%s_p%d", prefix, j))
			vh.Assume(p >= 0)
			out = append(out, abci.ValidatorUpdate{PubKey: vPubKey(j), Power: p})
		}
	}
	return out
}

// vApplyLoose applies updates where removing an absent key is a no-op (the
// consumer filters such removals before handing updates to CometBFT).
func vApplyLoose(s vSet, ups []abci.ValidatorUpdate, k int) vSet {
	out := vNewSet(k)
	copy(out.in, s.in)
	copy(out.power, s.power)
	for _, u := range ups {
		j := vKeyId(u.PubKey, k)
		out.in[j] = u.Power != 0
		out.power[j] = u.Power
	}
	return out
}

// VerifC01Accumulate (L2): applying AccumulateChanges(a,b) equals applying a
// then b, for every set S; the result has no duplicate key and is ordered by
// (power desc, key string desc).
func VerifC01Accumulate() {
	k := vh.Bound("keys", 3)
	a := vSymbolicUpdates("a", k)
	b := vSymbolicUpdates("b", k)
	s := vNewSet(k)
	for j := 0; j < k; j++ {
		s.in[j] = vh.Bool(vh.Sprintf("s_in%d", j))
		s.power[j] = vh.Int64(vh.Sprintf("s_p%d", j))
		vh.Assume(s.power[j] >= 1)
	}
	acc := ccv.AccumulateChanges(a, b)
	vh.Reach("after-accumulate")
	seen := make([]bool, k)
	for _, u := range acc {
		j := vKeyId(u.PubKey, k)
		vh.Assert(j >= 0, "C01.acc.only-known-keys")
		vh.Assert(!seen[j], "C01.acc.no-duplicate-key")
		seen[j] = true
	}
	for i := 1; i < len(acc); i++ {
		p, q := acc[i-1], acc[i]
		ordered := vh.Or(p.Power > q.Power, vh.And(p.Power == q.Power, p.PubKey.String() > q.PubKey.String()))
		vh.Assert(ordered, "C01.acc.sorted-power-desc-then-key-desc")
	}
	want := vApplyLoose(vApplyLoose(s, a, k), b, k)
	got := vApplyLoose(s, acc, k)
	vh.Assert(vSetEq(got, want, k), "C01.acc.batch-equals-one-by-one")
}

func vUpdatesEq(x, y []abci.ValidatorUpdate, k int) bool {
	if len(x) != len(y) {
		return false
	}
	eq := true
	for i := range x {
		if vKeyId(x[i].PubKey, k) != vKeyId(y[i].PubKey, k) {
			return false
		}
		eq = vh.And(eq, x[i].Power == y[i].Power)
	}
	return eq
}

// VerifC18MapOrder: two executions of AccumulateChanges / DiffValidators on the
// same inputs under independent, arbitrary map iteration orders return
// identical update lists (the engine runs this harness with every `range` over
// a map choosing its permutation nondeterministically).
func VerifC18MapOrder() {
	k := vh.Bound("keys", 3)
	a := vSymbolicUpdates("a", k)
	b := vSymbolicUpdates("b", k)
	// symbolically two executions with independent solver-chosen map orders are compared; the
	// native replay cannot choose Go's map order, so it repeats the call many times instead
	runs := 2
	if !vh.Symbolic() {
		runs = 500
	}
	r1 := ccv.AccumulateChanges(a, b)
	sameAcc := true
	for i := 1; i < runs; i++ {
		sameAcc = vh.And(sameAcc, vUpdatesEq(r1, ccv.AccumulateChanges(a, b), k))
	}
	vh.Reach("after-two-runs")
	vh.Assert(sameAcc, "C18.accumulate-independent-of-map-order")
	cur := vSymbolicValList("cur", k)
	next := vSymbolicValList("next", k)
	d1 := DiffValidators(cur, next)
	sameDiff := true
	for i := 1; i < runs; i++ {
		sameDiff = vh.And(sameDiff, vUpdatesEq(d1, DiffValidators(cur, next), k))
	}
	vh.Assert(sameDiff, "C18.diff-independent-of-map-order")
}
