//go:build verif

package keeper

import (
	"context"
	"errors"

	"cosmossdk.io/math"
	storetypes "cosmossdk.io/store/types"

	sdk "github.com/cosmos/cosmos-sdk/types"
	stakingtypes "github.com/cosmos/cosmos-sdk/x/staking/types"

	"github.com/cosmos/interchain-security/v7/x/ccv/provider/types"
	ccvtypes "github.com/cosmos/interchain-security/v7/x/ccv/types"
	"github.com/cosmos/interchain-security/v7/x/ccv/vh"
)

// Store-backed bank / distribution stubs: balances live in a KV store of the
// context they are called with, so a discarded cache context discards their
// effects exactly like the real modules' state.  Call counters are plain
// fields (a failure is injected at the n-th call whatever was rolled back).

type vKVLedger struct{ key *storetypes.KVStoreKey }

func (l vKVLedger) get(ctx context.Context, account, denom string) uint64 {
	bz := sdk.UnwrapSDKContext(ctx).KVStore(l.key).Get([]byte(account + "/" + denom))
	if bz == nil {
		return 0
	}
	return sdk.BigEndianToUint64(bz)
}

func (l vKVLedger) set(ctx context.Context, account, denom string, v uint64) {
	sdk.UnwrapSDKContext(ctx).KVStore(l.key).Set([]byte(account+"/"+denom), sdk.Uint64ToBigEndian(v))
}

func (l vKVLedger) move(ctx context.Context, from, to string, amt sdk.Coins) error {
	for _, c := range amt {
		if math.NewIntFromUint64(l.get(ctx, from, c.Denom)).LT(c.Amount) {
			return errors.New("insufficient funds")
		}
	}
	for _, c := range amt {
		l.set(ctx, from, c.Denom, l.get(ctx, from, c.Denom)-c.Amount.Uint64())
		l.set(ctx, to, c.Denom, l.get(ctx, to, c.Denom)+c.Amount.Uint64())
	}
	return nil
}

type vKVBank struct {
	ccvtypes.BankKeeper
	l          vKVLedger
	calls      int
	failOnCall int
}

func (b *vKVBank) SendCoinsFromModuleToModule(ctx context.Context, senderModule, recipientModule string, amt sdk.Coins) error {
	b.calls++
	if b.calls == b.failOnCall {
		return errors.New("bank: send failed")
	}
	return b.l.move(ctx, senderModule, recipientModule, amt)
}

type vKVDistr struct {
	ccvtypes.DistributionKeeper
	l               vKVLedger
	tax             math.LegacyDec
	fundCalls       int
	failFundOnCall  int
	allocCalls      int
	failAllocOnCall int
}

func (d *vKVDistr) GetCommunityTax(ctx context.Context) (math.LegacyDec, error) { return d.tax, nil }

func (d *vKVDistr) FundCommunityPool(ctx context.Context, amount sdk.Coins, sender sdk.AccAddress) error {
	d.fundCalls++
	if d.fundCalls == d.failFundOnCall {
		return errors.New("distribution: fund failed")
	}
	return d.l.move(ctx, types.ConsumerRewardsPool, "community", amount)
}

func (d *vKVDistr) AllocateTokensToValidator(ctx context.Context, val stakingtypes.ValidatorI, reward sdk.DecCoins) error {
	d.allocCalls++
	if d.allocCalls == d.failAllocOnCall {
		return errors.New("distribution: allocation failed")
	}
	return nil
}

// VerifC19AllocateRollback: AllocateTokens for one consumer holding credits in
// two registered denoms, with a failure injected at any external call (bank
// send, validator allocation, community-pool funding) of the first or second
// allocation: each (consumer, denom) allocation is all-or-nothing including
// the other modules' state — the pool balance of a denom falls by exactly the
// amount its credit fell, a failed allocation leaves credit and balances of
// its denom untouched, and the other denom is still processed.
func VerifC19AllocateRollback() {
	e := newVEnv(1)
	e.k.SetParams(e.ctx, vParams(100, 10))
	vStakingAllActive(e.st)
	l := vKVLedger{key: e.stubKey}
	bank := &vKVBank{l: l}
	distr := &vKVDistr{l: l, tax: math.LegacyNewDecWithPrec(2, 2)}
	e.k.bankKeeper, e.k.distributionKeeper, e.k.accountKeeper = bank, distr, vAccountKeeper2{}
	cid := "1"
	e.k.SetConsumerChainId(e.ctx, cid, "chain")
	e.k.SetConsumerClientId(e.ctx, cid, "07-tendermint-0")
	pk := vPubKey(0)
	_ = e.k.SetConsumerValidator(e.ctx, cid, types.ConsensusValidator{ProviderConsAddr: vConsAddr(0), Power: 5, PublicKey: &pk, JoinHeight: 0})
	vh.Assume(e.ctx.BlockHeight() >= 240)
	denoms := []string{"udenoma", "udenomb"}
	credit := make([]math.LegacyDec, len(denoms))
	const pool0 = uint64(1) << 61
	for i, d := range denoms {
		e.k.SetConsumerRewardDenom(e.ctx, d)
		credit[i] = vh.Dec(vh.Sprintf("credit%d", i))
		vh.Assume(credit[i].GTE(math.LegacyNewDec(2)))
		vh.Assume(credit[i].LTE(math.LegacyNewDec(1 << 50)))
		_ = e.k.SetConsumerRewardsAllocationByDenom(e.ctx, cid, d, types.ConsumerRewardsAllocation{Rewards: sdk.DecCoins{sdk.DecCoin{Denom: d, Amount: credit[i]}}})
		l.set(e.ctx, types.ConsumerRewardsPool, d, pool0)
	}
	// failure position: 0 none; 1,2 the n-th bank send; 3,4 the n-th validator allocation; 5,6 the n-th funding
	switch f := vh.ConcretizeInt(vh.Int("failure"), 0, 6); {
	case f == 1 || f == 2:
		bank.failOnCall = f
	case f == 3 || f == 4:
		distr.failAllocOnCall = f - 2
	case f == 5 || f == 6:
		distr.failFundOnCall = f - 4
	}

	e.k.AllocateTokens(e.ctx)

	vh.Reach("after-allocate-tokens")
	nDone := 0
	for i, d := range denoms {
		a, err := e.k.GetConsumerRewardsAllocationByDenom(e.ctx, cid, d)
		vh.Assert(err == nil, "C19.alloc.credit-readable")
		after := a.Rewards.AmountOf(d)
		pool := l.get(e.ctx, types.ConsumerRewardsPool, d)
		out := l.get(e.ctx, "distribution", d) + l.get(e.ctx, "community", d)
		vh.Assert(pool+out == pool0, "C19.alloc.no-tokens-created-or-lost")
		vh.Assert(credit[i].Sub(after).Equal(math.LegacyNewDecFromInt(math.NewIntFromUint64(out))), "C19.alloc.pool-falls-by-exactly-what-the-credit-fell")
		untouched := vh.And(after.Equal(credit[i]), out == 0)
		done := after.LT(math.LegacyNewDec(2))
		vh.Assert(vh.Or(untouched, done), "C19.alloc.each-allocation-is-all-or-nothing-including-other-modules")
		if done {
			nDone++
		}
	}
	if bank.failOnCall == 0 && distr.failAllocOnCall == 0 && distr.failFundOnCall == 0 {
		vh.Assert(nDone == 2, "C19.alloc.everything-paid-when-nothing-fails")
	} else {
		vh.Assert(nDone >= 1, "C19.alloc.a-failed-allocation-does-not-stop-the-other-denom")
	}
}
