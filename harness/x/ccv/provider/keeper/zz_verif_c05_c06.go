//go:build verif

package keeper

import (
	"bytes"
	"errors"
	"time"

	sdk "github.com/cosmos/cosmos-sdk/types"

	"github.com/cosmos/interchain-security/v7/x/ccv/provider/types"
	"github.com/cosmos/interchain-security/v7/x/ccv/vh"
)

// key universe of the C05/C06 harnesses: index 0..nv-1 = provider keys of the
// validators, nv.. = extra keys (identities 100, 101, ...).
func vKeyIdent(idx, nv int) int {
	if idx < nv {
		return idx
	}
	return 100 + idx - nv
}

type vKAState struct {
	nv, nk    int
	cur       []int // per validator: index of currently assigned key, -1 none
	byAddr    []int // per key: validator the address resolves to through the reverse index, -1 none
	pruneTs   []time.Time
	hasPrune  []bool // per key: address sits in the prune list at pruneTs[key]
}

// vInstallKAState writes an arbitrary key-assignment state of consumer cid that
// satisfies the invariant I1-I3 of DESIGN.md C05 (choices are case-split).
func vInstallKAState(e *vEnv, cid string, launched bool, extra int) vKAState {
	nv := e.st.n
	nk := nv + extra
	s := vKAState{nv: nv, nk: nk, cur: make([]int, nv), byAddr: make([]int, nk), pruneTs: make([]time.Time, nk), hasPrune: make([]bool, nk)}
	for k := 0; k < nk; k++ {
		s.byAddr[k] = -1
	}
	for v := 0; v < nv; v++ {
		// current key: -1 none, own provider key, or an extra key
		c := vh.ConcretizeInt(vh.Int(vh.Sprintf("cur%d", v)), -1, extra)
		vh.Assume(c >= -1)
		switch {
		case c < 0:
			s.cur[v] = -1
		case c == 0:
			s.cur[v] = v
		default:
			s.cur[v] = nv + c - 1
		}
		if s.cur[v] >= 0 {
			vh.Assume(s.byAddr[s.cur[v]] == -1) // no two validators share a current key
			s.byAddr[s.cur[v]] = v
			e.k.SetValidatorConsumerPubKey(e.ctx, cid, types.NewProviderConsAddress(vConsAddr(v)), vPubKey(vKeyIdent(s.cur[v], nv)))
		}
	}
	// retained (replaced, not yet pruned) keys: only on a launched consumer
	for k := 0; k < nk; k++ {
		if s.byAddr[k] >= 0 {
			continue
		}
		r := -1
		if launched {
			r = vh.ConcretizeInt(vh.Int(vh.Sprintf("retained%d", k)), -1, nv-1)
			vh.Assume(r >= -1)
		}
		if r >= 0 {
			// I3: a provider key can only have been used by its owner
			vh.Assume(k >= nv || r == k)
			s.byAddr[k] = r
			s.hasPrune[k] = true
			s.pruneTs[k] = vTimeIn(vh.Sprintf("prunets%d", k))
			e.k.AppendConsumerAddrsToPrune(e.ctx, cid, s.pruneTs[k], types.NewConsumerConsAddress(vConsAddr(vKeyIdent(k, nv))))
		}
	}
	for k := 0; k < nk; k++ {
		if s.byAddr[k] >= 0 {
			e.k.SetValidatorByConsumerAddr(e.ctx, cid, types.NewConsumerConsAddress(vConsAddr(vKeyIdent(k, nv))), types.NewProviderConsAddress(vConsAddr(s.byAddr[k])))
		}
	}
	return s
}

// vReadKAState reads the key-assignment state of cid back from the store.
func vReadKAState(e *vEnv, cid string, nv, nk int) vKAState {
	s := vKAState{nv: nv, nk: nk, cur: make([]int, nv), byAddr: make([]int, nk)}
	for v := 0; v < nv; v++ {
		s.cur[v] = -1
		if pk, found := e.k.GetValidatorConsumerPubKey(e.ctx, cid, types.NewProviderConsAddress(vConsAddr(v))); found {
			s.cur[v] = -2 // foreign key
			for k := 0; k < nk; k++ {
				if bytes.Equal(pk.GetEd25519(), vh.PubKeyBytes(vKeyIdent(k, nv))) {
					s.cur[v] = k
				}
			}
		}
	}
	for k := 0; k < nk; k++ {
		s.byAddr[k] = -1
		if pa, found := e.k.GetValidatorByConsumerAddr(e.ctx, cid, types.NewConsumerConsAddress(vConsAddr(vKeyIdent(k, nv)))); found {
			s.byAddr[k] = -2
			for v := 0; v < nv; v++ {
				if bytes.Equal(pa.ToSdkConsAddr(), vConsAddr(v)) {
					s.byAddr[k] = v
				}
			}
		}
	}
	return s
}

func vKAEqual(a, b vKAState) bool {
	for v := 0; v < a.nv; v++ {
		if a.cur[v] != b.cur[v] {
			return false
		}
	}
	for k := 0; k < a.nk; k++ {
		if a.byAddr[k] != b.byAddr[k] {
			return false
		}
	}
	return true
}

// vAssoc: validators associated with key k (current, retained, or provider key owner).
func vAssocCount(s vKAState, k int) int {
	n := 0
	for v := 0; v < s.nv; v++ {
		assoc := s.cur[v] == k || s.byAddr[k] == v || k == v
		if assoc {
			n++
		}
	}
	return n
}

// VerifC05AssignStep: one AssignConsumerKey(validator a, key k) from any
// invariant state; rejection rules, store untouched on rejection, invariant and
// uniqueness preserved; replaced keys stay attributable on a launched consumer
// with a pruning time of now+unbonding (C06).
func VerifC05AssignStep() {
	nv := vh.Bound("vals", 2)
	extra := vh.Bound("extrakeys", 2)
	cid, other := "1", "10"
	e := newVEnv(nv)
	phase := types.ConsumerPhase(vh.ConcretizeInt(vh.Int("phase"), 1, 5))
	e.k.SetConsumerPhase(e.ctx, cid, phase)
	launched := phase == types.CONSUMER_PHASE_LAUNCHED
	pre := vInstallKAState(e, cid, launched, extra)
	nk := pre.nk
	// a second consumer whose assignments must stay untouched
	e.k.SetConsumerPhase(e.ctx, other, types.CONSUMER_PHASE_LAUNCHED)
	e.k.SetValidatorConsumerPubKey(e.ctx, other, types.NewProviderConsAddress(vConsAddr(0)), vPubKey(100))
	e.k.SetValidatorByConsumerAddr(e.ctx, other, types.NewConsumerConsAddress(vConsAddr(100)), types.NewProviderConsAddress(vConsAddr(0)))

	a := vh.ConcretizeInt(vh.Int("assigner"), 0, nv-1)
	k := vh.ConcretizeInt(vh.Int("key"), 0, nk-1)
	err := e.k.AssignConsumerKey(e.ctx, cid, e.st.vals[a], vPubKey(vKeyIdent(k, nv)))
	vh.Reach("after-assign")
	post := vReadKAState(e, cid, nv, nk)

	active := phase == types.CONSUMER_PHASE_REGISTERED || phase == types.CONSUMER_PHASE_INITIALIZED || launched
	otherProviderKey := k < nv && k != a
	knownOnConsumer := pre.byAddr[k] >= 0 // current or recently replaced key of any validator (incl. a itself)
	defaultWithoutAssignment := k == a && pre.cur[a] < 0
	mustReject := !active || otherProviderKey || knownOnConsumer || defaultWithoutAssignment
	vh.Assert((err != nil) == mustReject, "C05.assign.rejected-iff-rule-applies")
	if err != nil {
		vh.Assert(vKAEqual(pre, post), "C05.assign.rejection-changes-nothing")
		if active && otherProviderKey {
			vh.Assert(errors.Is(err, types.ErrConsumerKeyInUse), "C05.assign.other-validators-provider-key-rejected")
		}
	} else {
		vh.Assert(post.cur[a] == k, "C05.assign.key-recorded")
		vh.Assert(post.byAddr[k] == a, "C05.assign.reverse-index-recorded")
		old := pre.cur[a]
		if old >= 0 {
			if launched {
				vh.Assert(post.byAddr[old] == a, "C06.replaced-key-still-resolves-to-validator")
				lst := e.k.GetConsumerAddrsToPrune(e.ctx, cid, e.ctx.BlockTime().Add(e.st.unbonding))
				found := false
				for _, ad := range lst.Addresses {
					if bytes.Equal(ad, vConsAddr(vKeyIdent(old, nv))) {
						found = true
					}
				}
				vh.Assert(found, "C06.replaced-key-scheduled-for-pruning-at-now-plus-unbonding")
			} else {
				vh.Assert(post.byAddr[old] == -1, "C06.prelaunch-replacement-frees-old-key-at-once")
			}
		}
	}
	// invariant and observable claim after the step
	for v := 0; v < nv; v++ {
		vh.Assert(post.cur[v] != -2, "C05.inv.no-foreign-key")
		if post.cur[v] >= 0 {
			vh.Assert(post.byAddr[post.cur[v]] == v, "C05.inv.I1-current-key-indexed")
		}
		if v != a {
			vh.Assert(post.cur[v] == pre.cur[v], "C05.assign.other-validators-untouched")
		}
	}
	for kk := 0; kk < nk; kk++ {
		vh.Assert(vAssocCount(post, kk) <= 1, "C05.key-associated-with-at-most-one-validator")
		if kk < nv && post.byAddr[kk] >= 0 {
			vh.Assert(post.byAddr[kk] == kk, "C05.inv.I3-provider-key-only-used-by-owner")
		}
	}
	// isolation of the other consumer
	opk, ofound := e.k.GetValidatorConsumerPubKey(e.ctx, other, types.NewProviderConsAddress(vConsAddr(0)))
	vh.Assert(ofound && bytes.Equal(opk.GetEd25519(), vh.PubKeyBytes(100)), "C05.assign.other-consumer-untouched")
}

// VerifC06Prune: PruneKeyAssignments at block time now deletes exactly the
// retained addresses whose pruning time is <= now, and nothing else.
func VerifC06Prune() {
	nv := vh.Bound("vals", 2)
	extra := vh.Bound("extrakeys", 2)
	cid := "1"
	e := newVEnv(nv)
	e.k.SetConsumerPhase(e.ctx, cid, types.CONSUMER_PHASE_LAUNCHED)
	pre := vInstallKAState(e, cid, true, extra)
	nk := pre.nk
	now := e.ctx.BlockTime()
	// another launched consumer whose store keys sort before cid's: it retains the
	// first extra key (whatever that key is on cid) with its own pruning time
	other := "0"
	e.k.SetConsumerPhase(e.ctx, other, types.CONSUMER_PHASE_LAUNCHED)
	otherTs := vTimeIn("other_prunets")
	otherAddr := types.NewConsumerConsAddress(vConsAddr(vKeyIdent(nv, nv)))
	e.k.AppendConsumerAddrsToPrune(e.ctx, other, otherTs, otherAddr)
	e.k.SetValidatorByConsumerAddr(e.ctx, other, otherAddr, types.NewProviderConsAddress(vConsAddr(0)))
	e.k.PruneKeyAssignments(e.ctx, cid)
	vh.Reach("after-prune")
	post := vReadKAState(e, cid, nv, nk)
	olst := e.k.GetConsumerAddrsToPrune(e.ctx, other, otherTs)
	vh.Assert(len(olst.Addresses) == 1, "C06.prune.other-consumers-entries-kept")
	_, ofound := e.k.GetValidatorByConsumerAddr(e.ctx, other, otherAddr)
	vh.Assert(ofound, "C06.prune.other-consumers-keys-still-attributable")
	for v := 0; v < nv; v++ {
		vh.Assert(post.cur[v] == pre.cur[v], "C06.prune.current-assignments-kept")
	}
	for k := 0; k < nk; k++ {
		if pre.hasPrune[k] {
			if pre.pruneTs[k].After(now) {
				vh.Assert(post.byAddr[k] == pre.byAddr[k], "C06.prune.not-yet-due-address-still-attributable")
				lst := e.k.GetConsumerAddrsToPrune(e.ctx, cid, pre.pruneTs[k])
				vh.Assert(len(lst.Addresses) >= 1, "C06.prune.not-yet-due-entry-kept")
			} else {
				vh.Assert(post.byAddr[k] == -1, "C06.prune.due-address-forgotten")
			}
		} else {
			vh.Assert(post.byAddr[k] == pre.byAddr[k], "C06.prune.current-keys-never-pruned")
		}
	}
	// a never-assigned address resolves to itself
	unknown := sdk.ConsAddress(vConsAddr(150))
	r := e.k.GetProviderAddrFromConsumerAddr(e.ctx, cid, types.NewConsumerConsAddress(unknown))
	vh.Assert(bytes.Equal(r.ToSdkConsAddr(), unknown), "C06.never-assigned-address-resolves-to-itself")
}

// VerifC05NewValidatorHook: the staking hook AfterValidatorCreated refuses
// (panics) exactly when the new validator's consensus address is known -
// currently assigned or recently replaced - on some ACTIVE consumer
// (registered, initialized or launched), whatever the consumer's client state.
func VerifC05NewValidatorHook() {
	nv := 2
	e := newVEnv(nv)
	cons := []string{"0", "1"}
	e.k.setConsumerId(e.ctx, 2) // two consumer ids issued so far
	known := false
	for i, cid := range cons {
		phase := types.ConsumerPhase(vh.ConcretizeInt(vh.Int(vh.Sprintf("phase%d", i)), 0, 5))
		if phase != types.CONSUMER_PHASE_UNSPECIFIED {
			e.k.SetConsumerPhase(e.ctx, cid, phase)
		}
		hasClient := vh.Bool(vh.Sprintf("has_client%d", i))
		if vh.Guard(hasClient) {
			e.k.SetConsumerClientId(e.ctx, cid, vh.Sprintf("07-tendermint-%d", i))
		}
		vh.EndGuard()
		// validator 0 uses (or recently used) the consensus key of the new validator 1 on this consumer
		uses := vh.Bool(vh.Sprintf("key_known_on%d", i))
		if vh.Guard(uses) {
			e.k.SetValidatorByConsumerAddr(e.ctx, cid, types.NewConsumerConsAddress(vConsAddr(1)), types.NewProviderConsAddress(vConsAddr(0)))
		}
		vh.EndGuard()
		active := phase == types.CONSUMER_PHASE_REGISTERED || phase == types.CONSUMER_PHASE_INITIALIZED || phase == types.CONSUMER_PHASE_LAUNCHED
		known = vh.Or(known, vh.And(uses, active))
	}
	panicked := false
	func() {
		defer func() {
			if r := recover(); r != nil {
				panicked = true
			}
		}()
		_ = e.k.Hooks().AfterValidatorCreated(e.ctx, vOperator(1))
	}()
	vh.Reach("after-hook")
	if panicked {
		vh.Assert(known, "C05.hook.refuses-only-keys-known-on-an-active-consumer")
	} else {
		vh.Assert(!known, "C05.hook.new-validator-cannot-reuse-a-key-known-on-an-active-consumer")
	}
}

// VerifC05ValidatorRemoved: the staking hook AfterValidatorRemoved for
// validator 0 from any invariant state of two consumers: every assignment of
// the removed validator (record and reverse index) is gone on every consumer,
// so its keys are free again; other validators' records, retained keys and the
// invariant are untouched.
func VerifC05ValidatorRemoved() {
	nv := vh.Bound("vals", 2)
	extra := vh.Bound("extrakeys", 2)
	e := newVEnv(nv)
	cons := []string{"1", "10"}
	pres := make([]vKAState, len(cons))
	for i, cid := range cons {
		launched := vh.ConcretizeInt(vh.Int(vh.Sprintf("launched%d", i)), 0, 1) == 1
		if launched {
			e.k.SetConsumerPhase(e.ctx, cid, types.CONSUMER_PHASE_LAUNCHED)
		} else {
			e.k.SetConsumerPhase(e.ctx, cid, types.CONSUMER_PHASE_INITIALIZED)
		}
		if i == 0 {
			pres[i] = vInstallKAState(e, cid, launched, extra)
		} else {
			// second consumer: validator 0 may have the first extra key assigned
			nk := nv + extra
			s := vKAState{nv: nv, nk: nk, cur: make([]int, nv), byAddr: make([]int, nk), pruneTs: make([]time.Time, nk), hasPrune: make([]bool, nk)}
			for v := range s.cur {
				s.cur[v] = -1
			}
			for k := range s.byAddr {
				s.byAddr[k] = -1
			}
			if vh.ConcretizeInt(vh.Int("assigned_on_second"), 0, 1) == 1 {
				s.cur[0], s.byAddr[nv] = nv, 0
				e.k.SetValidatorConsumerPubKey(e.ctx, cid, types.NewProviderConsAddress(vConsAddr(0)), vPubKey(vKeyIdent(nv, nv)))
				e.k.SetValidatorByConsumerAddr(e.ctx, cid, types.NewConsumerConsAddress(vConsAddr(vKeyIdent(nv, nv))), types.NewProviderConsAddress(vConsAddr(0)))
			}
			pres[i] = s
		}
	}
	err := e.k.Hooks().AfterValidatorRemoved(e.ctx, vConsAddr(0), vOperator(0))
	vh.Reach("after-removed")
	vh.Assert(err == nil, "C05.removed.no-error")
	for i, cid := range cons {
		pre := pres[i]
		post := vReadKAState(e, cid, nv, pre.nk)
		vh.Assert(post.cur[0] == -1, "C05.removed.assignment-record-of-removed-validator-deleted")
		if pre.cur[0] >= 0 {
			vh.Assert(post.byAddr[pre.cur[0]] == -1, "C05.removed.key-of-removed-validator-no-longer-resolves")
		}
		for v := 1; v < nv; v++ {
			vh.Assert(post.cur[v] == pre.cur[v], "C05.removed.other-validators-untouched")
		}
		for k := 0; k < pre.nk; k++ {
			if k != pre.cur[0] {
				vh.Assert(post.byAddr[k] == pre.byAddr[k], "C05.removed.other-keys-untouched")
			}
			// a key that looks free (no reverse index) is nobody's current key
			if post.byAddr[k] == -1 {
				for v := 0; v < nv; v++ {
					vh.Assert(post.cur[v] != k, "C05.inv.I1-current-key-indexed")
				}
			}
		}
	}
}
