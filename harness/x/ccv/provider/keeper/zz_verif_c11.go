//go:build verif

package keeper

import (
	"bytes"

	"cosmossdk.io/math"

	sdk "github.com/cosmos/cosmos-sdk/types"

	channeltypes "github.com/cosmos/ibc-go/v10/modules/core/04-channel/types"

	"github.com/cosmos/interchain-security/v7/x/ccv/provider/types"
	ccv "github.com/cosmos/interchain-security/v7/x/ccv/types"
	"github.com/cosmos/interchain-security/v7/x/ccv/vh"
)

// vPopulateConsumer writes one cell (at least) into every per-consumer key
// space of keys.go for consumer cid (validators 0..1, keys 100+i).
func vPopulateConsumer(e *vEnv, cid, clientId, channelId string) {
	k, ctx := e.k, e.ctx
	k.SetConsumerChainId(ctx, cid, "chain")
	k.SetConsumerOwnerAddress(ctx, cid, vUser(0))
	_ = k.SetConsumerMetadata(ctx, cid, types.ConsumerMetadata{Name: "n", Description: "d"})
	_ = k.SetConsumerInitializationParameters(ctx, cid, vInitParams(""))
	_ = k.SetConsumerPowerShapingParameters(ctx, cid, types.PowerShapingParameters{})
	_ = k.SetInfractionParameters(ctx, cid, vConcreteInfraction())
	k.SetConsumerClientId(ctx, cid, clientId)
	k.SetConsumerIdToChannelId(ctx, cid, channelId)
	k.SetChannelToConsumerId(ctx, channelId, cid)
	_ = k.SetConsumerGenesis(ctx, cid, ccv.ConsumerGenesisState{NewChain: true})
	k.SetSlashAcks(ctx, cid, []string{"a"})
	k.SetInitChainHeight(ctx, cid, 5)
	k.AppendPendingVSCPackets(ctx, cid, ccv.ValidatorSetChangePacketData{ValsetUpdateId: 3})
	k.SetEquivocationEvidenceMinHeight(ctx, cid, 7)
	k.SetMinimumPowerInTopN(ctx, cid, 9)
	for i := 0; i < 2; i++ {
		pa := types.NewProviderConsAddress(vConsAddr(i))
		k.SetValidatorConsumerPubKey(ctx, cid, pa, vPubKey(100+i))
		k.SetValidatorByConsumerAddr(ctx, cid, types.NewConsumerConsAddress(vConsAddr(100+i)), pa)
		pk := vPubKey(100 + i)
		_ = k.SetConsumerValidator(ctx, cid, types.ConsensusValidator{ProviderConsAddr: vConsAddr(i), Power: 1, PublicKey: &pk})
		k.SetOptedIn(ctx, cid, pa)
		k.SetAllowlist(ctx, cid, pa)
		k.SetDenylist(ctx, cid, pa)
		k.SetPrioritylist(ctx, cid, pa)
		_ = k.SetConsumerCommissionRate(ctx, cid, pa, math.LegacyNewDecWithPrec(5, 1))
	}
	k.AppendConsumerAddrsToPrune(ctx, cid, vTimeIn("prune_"+cid), types.NewConsumerConsAddress(vConsAddr(102)))
	k.SetValidatorByConsumerAddr(ctx, cid, types.NewConsumerConsAddress(vConsAddr(102)), types.NewProviderConsAddress(vConsAddr(0)))
	_ = k.SetQueuedInfractionParameters(ctx, cid, vConcreteInfraction())
	_ = k.AddToInfractionUpdateSchedule(ctx, cid, vTimeIn("infr_"+cid))
}

func vConcreteInfraction() types.InfractionParameters {
	return types.InfractionParameters{
		DoubleSign: &types.SlashJailParameters{SlashFraction: math.LegacyNewDecWithPrec(5, 2), JailDuration: 1 << 50, Tombstone: true},
		Downtime:   &types.SlashJailParameters{SlashFraction: math.LegacyNewDecWithPrec(1, 4), JailDuration: 600000000000},
	}
}

func vIdOfLenKey(key []byte) (string, bool) {
	if len(key) < 9 {
		return "", false
	}
	n := int(sdk.BigEndianToUint64(key[1:9]))
	if n < 0 || 9+n > len(key) {
		return "", false
	}
	return string(key[9 : 9+n]), true
}

func vContains(ids []string, id string) bool {
	for _, x := range ids {
		if x == id {
			return true
		}
	}
	return false
}

// vProtocolCellsOf walks the whole provider store and counts the cells that
// belong to consumer cid outside the descriptive key spaces the statement
// allows to be retained.
func vProtocolCellsOf(e *vEnv, cid string) (protocol int, retained int) {
	store := e.ctx.KVStore(e.key)
	it := store.Iterator(nil, nil)
	defer it.Close()
	legacy := map[byte]bool{}
	for _, k := range [][]byte{types.ConsumerIdToChannelIdKey(""), types.ConsumerIdToClientIdKey(""), types.ConsumerGenesisKey(""), types.SlashAcksKey(""), types.InitChainHeightKey(""), types.PendingVSCsKey(""), types.EquivocationEvidenceMinHeightKey("")} {
		legacy[k[0]] = true
	}
	descriptive := map[byte]bool{
		types.ConsumerIdToChainIdKey("")[0]: true, types.ConsumerIdToOwnerAddressKey("")[0]: true,
		types.ConsumerIdToMetadataKeyPrefix(): true, types.ConsumerIdToInitializationParametersKeyPrefix(): true,
		types.ConsumerIdToPowerShapingParametersKey("")[0]: true, types.ConsumerIdToPhaseKeyPrefix(): true,
		types.ConsumerIdToAllowlistedRewardDenomKeyPrefix(): true, types.ConsumerRewardsAllocationByDenomKeyPrefix(): true,
		types.ConsumerIdToInfractionParametersKeyPrefix(): true,
	}
	queues := map[byte]bool{types.SpawnTimeToConsumerIdsKeyPrefix(): true, types.RemovalTimeToConsumerIdsKeyPrefix(): true, types.InfractionScheduledTimeToConsumerIdsKeyPrefix(): true}
	chanToConsumer := types.ChannelToConsumerIdKey("")[0]
	clientToConsumer := types.ClientIdToConsumerIdKey("")[0]
	global := map[byte]bool{types.ParametersKey()[0]: true, types.PortKey()[0]: true, types.ValidatorSetUpdateIdKey()[0]: true,
		types.SlashMeterKey()[0]: true, types.SlashMeterReplenishTimeCandidateKey()[0]: true, types.ValsetUpdateBlockHeightKeyPrefix()[0]: true,
		types.LastProviderConsensusValsPrefix()[0]: true, types.ConsumerIdKey()[0]: true, types.ConsumerRewardDenomsKeyPrefix()[0]: true}
	for ; it.Valid(); it.Next() {
		key := it.Key()
		p := key[0]
		mine := false
		switch {
		case global[p]:
		case legacy[p]:
			mine = string(key[1:]) == cid
		case p == chanToConsumer || p == clientToConsumer:
			mine = string(it.Value()) == cid
		case queues[p]:
			var ids types.ConsumerIds
			if ids.Unmarshal(it.Value()) == nil {
				mine = vContains(ids.Ids, cid)
			}
		default:
			id, ok := vIdOfLenKey(key)
			mine = ok && id == cid
		}
		if mine {
			if descriptive[p] {
				retained++
			} else {
				protocol++
			}
		}
	}
	return
}

// VerifC11Delete: BeginBlockRemoveConsumers around the removal time of a
// stopped consumer "1" whose every key space is populated, next to a launched
// consumer "10" populated the same way.
func VerifC11Delete() {
	e, _, _, chk := vC17Env()
	vPopulateConsumer(e, "1", "07-tendermint-0", "channel-0")
	vPopulateConsumer(e, "10", "07-tendermint-1", "channel-1")
	// the CCV channel may still be open, already closed (e.g. after a timeout on the
	// ordered channel) or unknown to the IBC module
	chState := vh.ConcretizeInt(vh.Int("channel_state"), 0, 2)
	switch chState {
	case 0:
		chk.channels["channel-0"] = channeltypes.Channel{State: channeltypes.OPEN}
	case 1:
		chk.channels["channel-0"] = channeltypes.Channel{State: channeltypes.CLOSED}
	}
	e.k.SetConsumerPhase(e.ctx, "10", types.CONSUMER_PHASE_LAUNCHED)
	e.k.SetConsumerPhase(e.ctx, "1", types.CONSUMER_PHASE_STOPPED)
	rt := vTimeIn("removal_time")
	vh.Assert(e.k.SetConsumerRemovalTime(e.ctx, "1", rt) == nil, "C11.setup")
	vh.Assert(e.k.AppendConsumerToBeRemoved(e.ctx, "1", rt) == nil, "C11.setup")
	before10, _ := vProtocolCellsOf(e, "10")
	before1, _ := vProtocolCellsOf(e, "1")
	vh.Assert(before1 >= 20, "C11.setup-populates-protocol-state")
	now := e.ctx.BlockTime()

	err := e.k.BeginBlockRemoveConsumers(e.ctx)

	vh.Reach("after-remove")
	vh.Assert(err == nil, "C11.remove.no-error")
	after1, kept1 := vProtocolCellsOf(e, "1")
	after10, _ := vProtocolCellsOf(e, "10")
	due := !rt.After(now)
	if due {
		vh.Assert(after1 == 0, "C11.remove.no-protocol-state-left-after-removal-time")
		vh.Assert(kept1 >= 6, "C11.remove.descriptive-records-retained")
		vh.Assert(e.k.GetConsumerPhase(e.ctx, "1") == types.CONSUMER_PHASE_DELETED, "C11.remove.marked-deleted")
		if chState == 0 {
			vh.Assert(len(chk.closed) == 1 && chk.closed[0] == "channel-0", "C11.remove.channel-closed")
		} else {
			vh.Assert(len(chk.closed) == 0, "C11.remove.closed-channel-not-closed-again")
		}
	} else {
		vh.Assert(after1 == before1, "C11.remove.nothing-deleted-before-removal-time")
		vh.Assert(e.k.GetConsumerPhase(e.ctx, "1") == types.CONSUMER_PHASE_STOPPED, "C11.remove.still-stopped-before-removal-time")
		vh.Assert(len(chk.closed) == 0, "C11.remove.channel-open-before-removal-time")
	}
	vh.Assert(after10 == before10, "C11.remove.other-consumer-untouched")
	vh.Assert(e.k.GetConsumerPhase(e.ctx, "10") == types.CONSUMER_PHASE_LAUNCHED, "C11.remove.other-consumer-phase-kept")
}

// VerifC11Stop: the four stop routes put a launched consumer into STOPPED with
// removal time now+unbonding, queued once more, leaving key assignments, client
// binding and evidence height untouched; a stopped consumer gets no further packets.
func VerifC11Stop() {
	e, _, _, chk := vC17Env()
	vPopulateConsumer(e, "1", "07-tendermint-0", "channel-0")
	vPopulateConsumer(e, "10", "07-tendermint-1", "channel-1")
	e.k.accountKeeper = vAccountKeeper{}
	e.k.SetConsumerPhase(e.ctx, "1", types.CONSUMER_PHASE_LAUNCHED)
	e.k.SetConsumerPhase(e.ctx, "10", types.CONSUMER_PHASE_LAUNCHED)
	chk.channels["channel-0"] = channeltypes.Channel{State: channeltypes.OPEN}
	chk.channels["channel-1"] = channeltypes.Channel{State: channeltypes.OPEN}
	before1, _ := vProtocolCellsOf(e, "1")
	before10, _ := vProtocolCellsOf(e, "10")
	packet := channeltypes.Packet{SourceChannel: "channel-0"}
	var err error
	switch vh.Bound("route", 0) {
	case 0:
		_, err = msgServer{Keeper: &e.k}.RemoveConsumer(e.ctx, &types.MsgRemoveConsumer{Owner: vUser(0), ConsumerId: "1"})
	case 1:
		err = e.k.OnTimeoutPacket(e.ctx, packet)
	case 2:
		err = e.k.OnAcknowledgementPacket(e.ctx, packet, channeltypes.Acknowledgement{Response: &channeltypes.Acknowledgement_Error{Error: "rejected"}})
	default:
		chk.sendErr = channeltypes.ErrInvalidChannelState
		err = e.k.SendVSCPacketsToChain(e.ctx, "1", "channel-0")
	}
	vh.Reach("after-stop")
	vh.Assert(err == nil, "C11.stop.no-error")
	vh.Assert(e.k.GetConsumerPhase(e.ctx, "1") == types.CONSUMER_PHASE_STOPPED, "C11.stop.phase-stopped")
	rt, rerr := e.k.GetConsumerRemovalTime(e.ctx, "1")
	want := e.ctx.BlockTime().Add(e.st.unbonding)
	vh.Assert(rerr == nil && rt.Equal(want), "C11.stop.removal-time-is-now-plus-unbonding")
	q, _ := e.k.GetConsumersToBeRemoved(e.ctx, want)
	vh.Assert(len(q.Ids) == 1 && q.Ids[0] == "1", "C11.stop.queued-for-removal-once")
	after1, _ := vProtocolCellsOf(e, "1")
	vh.Assert(after1 == before1+2, "C11.stop.keeps-protocol-state-until-removal") // + removal time + queue entry
	cl, f := e.k.GetConsumerClientId(e.ctx, "1")
	vh.Assert(f && cl == "07-tendermint-0", "C11.stop.client-binding-kept")
	vh.Assert(e.k.GetEquivocationEvidenceMinHeight(e.ctx, "1") == 7, "C11.stop.evidence-min-height-kept")
	pa, f2 := e.k.GetValidatorByConsumerAddr(e.ctx, "1", types.NewConsumerConsAddress(vConsAddr(100)))
	vh.Assert(f2 && bytes.Equal(pa.ToSdkConsAddr(), vConsAddr(0)), "C11.stop.key-assignments-kept")
	after10, _ := vProtocolCellsOf(e, "10")
	vh.Assert(after10 == before10, "C11.stop.other-consumer-untouched")
	// no more packets for the stopped consumer
	sentBefore := len(chk.sent)
	chk.sendErr = nil
	pend1 := len(e.k.GetPendingVSCPackets(e.ctx, "1"))
	vStakingAllActive(e.st)
	vh.Assert(e.k.QueueVSCPackets(e.ctx) == nil, "C11.stop.queue-no-error")
	vh.Assert(len(e.k.GetPendingVSCPackets(e.ctx, "1")) == pend1, "C11.stop.no-new-packets-queued-for-stopped-consumer")
	vh.Assert(e.k.SendVSCPackets(e.ctx) == nil, "C11.stop.send-no-error")
	for _, s := range chk.sent[sentBefore:] {
		vh.Assert(s.channel != "channel-0", "C11.stop.nothing-sent-to-stopped-consumer")
	}
}

// VerifC11RemoveBatch: a removal batch of several due queue entries in which
// some entries fail (a consumer stopped twice is queued twice, an entry of a
// consumer that is no longer stopped): every stopped consumer with a due entry
// is deleted whatever the position of the failing entries, the due entries are
// consumed, and a consumer that is not stopped is left alone.
func VerifC11RemoveBatch() {
	e, _, _, _ := vC17Env()
	ids := []string{"1", "2", "3"}
	rt := vTimeIn("removal_time")
	now := e.ctx.BlockTime()
	vh.Assume(!rt.After(now))
	// consumer "3" is either stopped or (already relaunched / never stopped) launched
	thirdStopped := vh.ConcretizeInt(vh.Int("third_stopped"), 0, 1) == 1
	for i, c := range ids {
		ph := types.CONSUMER_PHASE_STOPPED
		if i == 2 && !thirdStopped {
			ph = types.CONSUMER_PHASE_LAUNCHED
		}
		e.k.SetConsumerPhase(e.ctx, c, ph)
		vh.Assert(e.k.SetConsumerRemovalTime(e.ctx, c, rt) == nil, "C11.setup")
	}
	// queue: four entries over the three consumers, any order, repetitions allowed
	inQueue := make([]bool, len(ids))
	for j := 0; j < 4; j++ {
		x := vh.ConcretizeInt(vh.Int(vh.Sprintf("entry%d", j)), 0, len(ids)-1)
		inQueue[x] = true
		vh.Assert(e.k.AppendConsumerToBeRemoved(e.ctx, ids[x], rt) == nil, "C11.setup")
	}
	err := e.k.BeginBlockRemoveConsumers(e.ctx)
	vh.Reach("after-remove")
	vh.Assert(err == nil, "C11.remove.no-error")
	for i, c := range ids {
		ph := e.k.GetConsumerPhase(e.ctx, c)
		stopped := i != 2 || thirdStopped
		switch {
		case stopped && inQueue[i]:
			vh.Assert(ph == types.CONSUMER_PHASE_DELETED, "C11.batch.every-due-stopped-consumer-is-deleted")
		case stopped:
			vh.Assert(ph == types.CONSUMER_PHASE_STOPPED, "C11.batch.unqueued-consumer-untouched")
		default:
			vh.Assert(ph == types.CONSUMER_PHASE_LAUNCHED, "C11.batch.non-stopped-consumer-never-deleted")
		}
	}
	left, lerr := e.k.GetConsumersToBeRemoved(e.ctx, rt)
	vh.Assert(lerr == nil && len(left.Ids) == 0, "C11.batch.due-entries-consumed")
}
