//go:build verif

package keeper

import (
	"bytes"
	"time"

	"github.com/cosmos/cosmos-sdk/codec"
	codectypes "github.com/cosmos/cosmos-sdk/codec/types"
	cryptocodec "github.com/cosmos/cosmos-sdk/crypto/codec"
	"github.com/cosmos/cosmos-sdk/runtime"
	stakingtypes "github.com/cosmos/cosmos-sdk/x/staking/types"

	tmcrypto "github.com/cometbft/cometbft/proto/tendermint/crypto"
	cmtproto "github.com/cometbft/cometbft/proto/tendermint/types"
	cmtversion "github.com/cometbft/cometbft/proto/tendermint/version"
	tmtypes "github.com/cometbft/cometbft/types"

	clienttypes "github.com/cosmos/ibc-go/v10/modules/core/02-client/types"
	commitmenttypes "github.com/cosmos/ibc-go/v10/modules/core/23-commitment/types"
	host "github.com/cosmos/ibc-go/v10/modules/core/24-host"
	ibctmtypes "github.com/cosmos/ibc-go/v10/modules/light-clients/07-tendermint"

	"github.com/cosmos/interchain-security/v7/x/ccv/provider/types"
	"github.com/cosmos/interchain-security/v7/x/ccv/vh"
)

// vLCClientKeeper adds the store provider the tendermint light-client module reads from.
type vLCClientKeeper struct {
	*vClientKeeper
	sp clienttypes.StoreProvider
}

func (c *vLCClientKeeper) GetStoreProvider() clienttypes.StoreProvider { return c.sp }

const (
	vSigAbsent = 0
	vSigValid  = 1
	vSigBadKey = 2 // commit flag, but signed with a key that is not the validator's
	vSigNil    = 3 // a validly signed precommit for nil (the validator did not sign this block)
)

type vMisbHeaderSpec struct {
	chainID  string
	height   int64
	round    int32
	dataByte byte // distinguishes block ids without touching the state transition
	appByte  byte // a different app hash makes the state transitions conflict
	sig      []int
}

func vHash32(b byte) []byte {
	h := make([]byte, 32)
	h[0] = b
	return h
}

// vMisbHeader builds an IBC tendermint header at hs.height whose commit is signed
// (for signChain) by the consumer keys keyIdent[j] according to hs.sig[j].
func vMisbHeader(hs vMisbHeaderSpec, signChain string, keyIdent []int, powers []int64, t time.Time, trustedHeight clienttypes.Height) *ibctmtypes.Header {
	n := len(keyIdent)
	vals := make([]*cmtproto.Validator, n)
	total := int64(0)
	for j := 0; j < n; j++ {
		vals[j] = &cmtproto.Validator{
			Address:     vConsAddr(keyIdent[j]),
			PubKey:      tmcrypto.PublicKey{Sum: &tmcrypto.PublicKey_Ed25519{Ed25519: vh.PubKeyBytes(keyIdent[j])}},
			VotingPower: powers[j],
		}
		total += powers[j]
	}
	valset := &cmtproto.ValidatorSet{Validators: vals, Proposer: vals[0], TotalVotingPower: total}
	header := cmtproto.Header{
		Version:            cmtversion.Consensus{Block: 11},
		ChainID:            hs.chainID,
		Height:             hs.height,
		Time:               t,
		LastBlockId:        cmtproto.BlockID{Hash: vHash32(9), PartSetHeader: cmtproto.PartSetHeader{Total: 1, Hash: vHash32(9)}},
		LastCommitHash:     vHash32(3),
		DataHash:           vHash32(hs.dataByte),
		ValidatorsHash:     vHash32(4),
		NextValidatorsHash: vHash32(4),
		ConsensusHash:      vHash32(5),
		AppHash:            vHash32(hs.appByte),
		LastResultsHash:    vHash32(6),
		EvidenceHash:       vHash32(7),
		ProposerAddress:    vConsAddr(keyIdent[0]),
	}
	bh := vHash32(hs.dataByte)
	bh[1], bh[2] = hs.appByte, byte(hs.round)
	blockID := tmtypes.BlockID{Hash: bh, PartSetHeader: tmtypes.PartSetHeader{Total: 1, Hash: vHash32(8)}}
	commit := &tmtypes.Commit{Height: hs.height, Round: hs.round, BlockID: blockID}
	for j := 0; j < n; j++ {
		if hs.sig[j] == vSigAbsent {
			commit.Signatures = append(commit.Signatures, tmtypes.NewCommitSigAbsent())
		} else if hs.sig[j] == vSigNil {
			commit.Signatures = append(commit.Signatures, tmtypes.CommitSig{BlockIDFlag: tmtypes.BlockIDFlagNil, ValidatorAddress: tmtypes.Address(vConsAddr(keyIdent[j])), Timestamp: t})
		} else {
			commit.Signatures = append(commit.Signatures, tmtypes.CommitSig{BlockIDFlag: tmtypes.BlockIDFlagCommit, ValidatorAddress: tmtypes.Address(vConsAddr(keyIdent[j])), Timestamp: t})
		}
	}
	for j := 0; j < n; j++ {
		if hs.sig[j] == vSigAbsent {
			continue
		}
		signer := keyIdent[j]
		if hs.sig[j] == vSigBadKey {
			signer = 101
		}
		commit.Signatures[j].Signature = vh.SignBytes(signer, commit.VoteSignBytes(signChain, int32(j)))
	}
	return &ibctmtypes.Header{
		SignedHeader:      &cmtproto.SignedHeader{Header: &header, Commit: commit.ToProto()},
		ValidatorSet:      valset,
		TrustedHeight:     trustedHeight,
		TrustedValidators: valset,
	}
}

// VerifC07Misbehaviour: one HandleConsumerMisbehaviour call for consumer "1"
// (chain "chain-A", client 07-tendermint-0) with two headers at the same height
// over a three-validator consumer set (powers 10/1/1, validator 0 possibly with
// an assigned key).  Per header and validator the commit signature is absent,
// valid or made with a foreign key; the header pair is an equivocation (same
// state transition, same round), a lunatic attack (other app hash) or an
// amnesia attack (other round); one ICS-level defect at a time is injected.
// The tendermint light-client module is replaced by its verdict, declared to
// the engine through vh.LightClient (natively the real module runs on a client
// store built inside vh.Native so that its verdict is the declared one).
func VerifC07Misbehaviour() {
	nv := 3
	cid := "1"
	e := newVEnv(nv)
	e.k.SetParams(e.ctx, vParams(100, 600))
	clientID := "07-tendermint-0"
	// 0 none, 1 header for another chain, 2 consumer has no client, 3 message names another client,
	// 4 headers at different heights, 5 identical block ids, 6 light client does not trust the headers,
	// 7 unknown consumer id
	defect := vh.ConcretizeInt(vh.Int("defect"), 0, 7)
	submitCid := cid
	if defect == 7 {
		submitCid = "5"
	}
	e.k.SetConsumerChainId(e.ctx, cid, "chain-A")
	e.k.SetConsumerChainId(e.ctx, "10", "chain-A")
	if defect != 2 {
		e.k.SetConsumerClientId(e.ctx, cid, clientID)
	}
	e.k.SetConsumerClientId(e.ctx, "10", "07-tendermint-1")
	minH := vh.Uint64("min_height")
	vh.Assume(minH <= 1<<41)
	e.k.SetEquivocationEvidenceMinHeight(e.ctx, cid, minH)
	ip := vSymbolicInfractionParams("ip_")
	vh.Assert(e.k.SetInfractionParameters(e.ctx, cid, ip) == nil, "C07.setup")

	keyIdent := []int{0, 1, 2}
	if vh.ConcretizeInt(vh.Int("assigned_key"), 0, 1) == 1 {
		keyIdent[0] = 100
		e.k.SetValidatorByConsumerAddr(e.ctx, cid, types.NewConsumerConsAddress(vConsAddr(100)), types.NewProviderConsAddress(vConsAddr(0)))
		e.k.SetValidatorConsumerPubKey(e.ctx, cid, types.NewProviderConsAddress(vConsAddr(0)), vPubKey(100))
	}
	powers := []int64{10, 1, 1}

	// signatures
	sig1, sig2 := make([]int, nv), make([]int, nv)
	if defect == 0 {
		for j := 0; j < 2; j++ {
			sig1[j] = vSigValid
			if j == 0 || vh.Bound("full_patterns", 0) == 1 {
				// bound full_patterns=0 (quick tier): validator 1 signs header 1 validly, its
				// signature on header 2 is absent / valid / foreign-key
				sig1[j] = vh.ConcretizeInt(vh.Int(vh.Sprintf("sig1_%d", j)), 0, vSigBadKey)
			}
			sig2[j] = vh.ConcretizeInt(vh.Int(vh.Sprintf("sig2_%d", j)), 0, vSigBadKey)
		}
		// validator 2: absent on both, signs both, signs one block and precommits nil for the other, signs only one
		pat := [][2]int{{vSigAbsent, vSigAbsent}, {vSigValid, vSigValid}, {vSigValid, vSigNil}, {vSigNil, vSigValid}, {vSigValid, vSigAbsent}}
		p2 := vh.ConcretizeInt(vh.Int("sig_pattern_2"), 0, len(pat)-1)
		sig1[2], sig2[2] = pat[p2][0], pat[p2][1]
	} else {
		for j := 0; j < nv; j++ {
			sig1[j], sig2[j] = vSigValid, vSigValid
		}
	}
	kind := vh.ConcretizeInt(vh.Int("attack"), 0, 2) // 0 equivocation, 1 lunatic, 2 amnesia
	height := vh.Int64("evidence_height")
	vh.Assume(height >= 2)
	vh.Assume(height <= 1<<40)
	now := e.ctx.BlockTime()
	t := now.Add(-time.Second)
	h1 := vMisbHeaderSpec{chainID: "chain-A", height: height, round: 0, dataByte: 1, appByte: 1, sig: sig1}
	h2 := vMisbHeaderSpec{chainID: "chain-A", height: height, round: 0, dataByte: 2, appByte: 1, sig: sig2}
	switch kind {
	case 1:
		h2.appByte = 2
	case 2:
		h2.round = 1
	}
	if defect == 1 {
		h1.chainID, h2.chainID = "chain-B", "chain-B"
	}
	if defect == 4 {
		h2.height = height + 1
	}
	if defect == 5 {
		h2 = h1
		h2.sig = sig2
	}
	trusted := clienttypes.Height{RevisionNumber: 0, RevisionHeight: 1}
	hdr1 := vMisbHeader(h1, h1.chainID, keyIdent, powers, t, trusted)
	hdr2 := vMisbHeader(h2, h2.chainID, keyIdent, powers, t, trusted)
	msgClient := clientID
	if defect == 3 {
		msgClient = "07-tendermint-1"
	}
	misb := ibctmtypes.Misbehaviour{ClientId: msgClient, Header1: hdr1, Header2: hdr2}

	// the light client's verdict: it trusts a header iff the trusted validator set matches the
	// stored consensus state and validator 0 (10 of 12 voting power, first in the commit) signed it
	// validly for the client's chain id; other signatures are not looked at once 1/3 is reached
	lcTrusts := defect != 6 && sig1[0] == vSigValid && sig2[0] == vSigValid
	lcConflicting := defect != 5
	vh.LightClient(lcConflicting, lcTrusts)
	lck := &vLCClientKeeper{vClientKeeper: &vClientKeeper{chainIds: map[string]string{}}}
	e.k.clientKeeper = lck
	vh.Native(func() {
		reg := codectypes.NewInterfaceRegistry()
		cryptocodec.RegisterInterfaces(reg)
		ibctmtypes.RegisterInterfaces(reg)
		cdc := codec.NewProtoCodec(reg)
		e.k.cdc = cdc
		sp := clienttypes.NewStoreProvider(runtime.NewKVStoreService(e.key))
		lck.sp = sp
		for _, cl := range []string{clientID, "07-tendermint-1"} {
			st := sp.ClientStore(e.ctx, cl)
			cs := ibctmtypes.NewClientState("chain-A", ibctmtypes.DefaultTrustLevel, 1000*time.Hour, 2000*time.Hour, 10*time.Second,
				clienttypes.Height{RevisionNumber: 0, RevisionHeight: 1}, commitmenttypes.GetSDKSpecs(), []string{"upgrade", "upgradedIBCState"})
			st.Set(host.ClientStateKey(), clienttypes.MustMarshalClientState(cdc, cs))
			tvs, err := tmtypes.ValidatorSetFromProto(hdr1.TrustedValidators)
			if err != nil {
				panic(err)
			}
			nvh := tvs.Hash()
			if defect == 6 {
				nvh = vHash32(0x66)
			}
			cons := ibctmtypes.NewConsensusState(t.Add(-time.Minute), commitmenttypes.NewMerkleRoot([]byte("root")), nvh)
			st.Set(host.ConsensusStateKey(trusted), clienttypes.MustMarshalConsensusState(cdc, cons))
		}
	})

	unbonded := make([]bool, nv)
	tombBefore := make([]bool, nv)
	jailedBefore := make([]bool, nv)
	for j := 0; j < nv; j++ {
		unbonded[j] = e.st.vals[j].IsUnbonded()
		tombBefore[j] = e.sl.tombstoned[j]
		jailedBefore[j] = e.st.vals[j].Jailed
	}

	err := e.k.HandleConsumerMisbehaviour(e.ctx, submitCid, misb)

	vh.Reach("after-handle")
	vh.InfoErr(err)
	valid := vh.And(defect == 0, vh.And(uint64(height) >= minH, lcTrusts))
	// signers of both headers; a foreign-key signature among them invalidates the evidence
	both := make([]bool, nv)
	anyBad := false
	for j := 0; j < nv; j++ {
		// a signer of both headers put a commit signature on both blocks; a precommit for nil is
		// not a signature for the block
		both[j] = kind != 2 && (sig1[j] == vSigValid || sig1[j] == vSigBadKey) && (sig2[j] == vSigValid || sig2[j] == vSigBadKey)
		if both[j] && (sig1[j] == vSigBadKey || sig2[j] == vSigBadKey) {
			anyBad = true
		}
	}
	valid = vh.And(valid, !anyBad)
	punish := make([]bool, nv)
	anyPunished := false
	for j := 0; j < nv; j++ {
		punish[j] = vh.And(valid, vh.And(both[j], vh.And(!unbonded[j], !tombBefore[j])))
		anyPunished = vh.Or(anyPunished, punish[j])
	}
	vh.Assert((err == nil) == anyPunished, "C07.misbehaviour-accepted-iff-valid-and-some-signer-punishable")
	for j := 0; j < nv; j++ {
		nSlash := 0
		for _, s := range e.st.slashes {
			if bytes.Equal(s.cons, vConsAddr(j)) {
				nSlash++
				vh.Assert(s.fraction.Equal(ip.DoubleSign.SlashFraction), "C07.uses-consumer-double-sign-slash-fraction")
				vh.Assert(s.infraction == stakingtypes.Infraction_INFRACTION_DOUBLE_SIGN, "C07.double-sign-infraction-kind")
			}
		}
		if punish[j] {
			vh.Assert(nSlash == 1, "C07.misbehaviour-slashes-every-punishable-signer-of-both-headers-once")
			vh.Assert(e.st.vals[j].Jailed, "C07.validator-jailed")
			vh.Assert(e.sl.jailUntil[j].Equal(now.Add(ip.DoubleSign.JailDuration)), "C07.jailed-until-now-plus-consumer-jail-duration")
			vh.Assert(e.sl.tombstoned[j] == ip.DoubleSign.Tombstone, "C07.tombstoned-iff-configured")
		} else {
			vh.Assert(nSlash == 0, "C07.misbehaviour-slashes-nobody-else")
			vh.Assert(e.st.vals[j].Jailed == jailedBefore[j], "C07.misbehaviour-jails-nobody-else")
			vh.Assert(e.sl.tombstoned[j] == tombBefore[j], "C07.misbehaviour-tombstones-nobody-else")
		}
	}
}
