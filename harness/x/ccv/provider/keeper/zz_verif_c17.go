//go:build verif

package keeper

import (
	channeltypes "github.com/cosmos/ibc-go/v10/modules/core/04-channel/types"

	"github.com/cosmos/interchain-security/v7/x/ccv/provider/types"
	"github.com/cosmos/interchain-security/v7/x/ccv/vh"
)

var (
	vC17Consumers = []string{"1", "10", "2"}
	vC17Clients   = []string{"07-tendermint-0", "07-tendermint-1"}
	vC17Channels  = []string{"channel-0", "channel-1"}
	vC17Conns     = []string{"connection-0", "connection-1"}
)

type vBindings struct {
	client  []int // per consumer: index of bound client, -1 none
	channel []int // per consumer: index of bound channel, -1 none
}

// vInstallBindings writes an arbitrary binding state satisfying Inv_17 (client
// and channel maps mutually inverse partial injections, channel => client).
func vInstallBindings(e *vEnv) vBindings {
	nc := len(vC17Consumers)
	b := vBindings{make([]int, nc), make([]int, nc)}
	usedCl := make([]bool, len(vC17Clients))
	usedCh := make([]bool, len(vC17Channels))
	for i, c := range vC17Consumers {
		b.client[i] = vh.ConcretizeInt(vh.Int(vh.Sprintf("client_of_%d", i)), -1, len(vC17Clients)-1)
		b.channel[i] = -1
		if b.client[i] >= 0 {
			vh.Assume(!usedCl[b.client[i]])
			usedCl[b.client[i]] = true
			e.k.SetConsumerClientId(e.ctx, c, vC17Clients[b.client[i]])
			b.channel[i] = vh.ConcretizeInt(vh.Int(vh.Sprintf("channel_of_%d", i)), -1, len(vC17Channels)-1)
			if b.channel[i] >= 0 {
				vh.Assume(!usedCh[b.channel[i]])
				usedCh[b.channel[i]] = true
				e.k.SetConsumerIdToChannelId(e.ctx, c, vC17Channels[b.channel[i]])
				e.k.SetChannelToConsumerId(e.ctx, vC17Channels[b.channel[i]], c)
			}
		}
	}
	return b
}

func vReadBindings(e *vEnv) (vBindings, bool) {
	nc := len(vC17Consumers)
	b := vBindings{make([]int, nc), make([]int, nc)}
	ok := true
	for i, c := range vC17Consumers {
		b.client[i], b.channel[i] = -1, -1
		if cl, found := e.k.GetConsumerClientId(e.ctx, c); found {
			b.client[i] = -2
			for j, x := range vC17Clients {
				if x == cl {
					b.client[i] = j
				}
			}
			// reverse index agrees
			back, f2 := e.k.GetClientIdToConsumerId(e.ctx, cl)
			if !f2 || back != c {
				ok = false
			}
		}
		if ch, found := e.k.GetConsumerIdToChannelId(e.ctx, c); found {
			b.channel[i] = -2
			for j, x := range vC17Channels {
				if x == ch {
					b.channel[i] = j
				}
			}
			back, f2 := e.k.GetChannelIdToConsumerId(e.ctx, ch)
			if !f2 || back != c {
				ok = false
			}
		}
	}
	// reverse maps point only to forward entries; injectivity
	for j, cl := range vC17Clients {
		n := 0
		for i := range vC17Consumers {
			if b.client[i] == j {
				n++
			}
		}
		if n > 1 {
			ok = false
		}
		if back, found := e.k.GetClientIdToConsumerId(e.ctx, cl); found {
			fwd, f2 := e.k.GetConsumerClientId(e.ctx, back)
			if !f2 || fwd != cl {
				ok = false
			}
		}
	}
	for j, ch := range vC17Channels {
		n := 0
		for i := range vC17Consumers {
			if b.channel[i] == j {
				n++
			}
		}
		if n > 1 {
			ok = false
		}
		if back, found := e.k.GetChannelIdToConsumerId(e.ctx, ch); found {
			fwd, f2 := e.k.GetConsumerIdToChannelId(e.ctx, back)
			if !f2 || fwd != ch {
				ok = false
			}
		}
	}
	return b, ok
}

func vC17Env() (*vEnv, *vConnKeeper, *vClientKeeper, *vChannelKeeper) {
	e := newVEnv(1)
	conn := &vConnKeeper{connClient: map[string]string{"connection-0": vC17Clients[0], "connection-1": vC17Clients[1]}}
	cl := &vClientKeeper{chainIds: map[string]string{vC17Clients[0]: "chain-a", vC17Clients[1]: "chain-b"}}
	ch := &vChannelKeeper{channels: map[string]channeltypes.Channel{}}
	e.k.connectionKeeper, e.k.clientKeeper, e.k.channelKeeper = conn, cl, ch
	e.k.SetParams(e.ctx, vParams(100, 600))
	return e, conn, cl, ch
}

// VerifC17Handshake: VerifyConsumerChain (OnChanOpenTry) and SetConsumerChain
// (OnChanOpenConfirm) from any binding state satisfying Inv_17.
func VerifC17Handshake() {
	e, _, _, chk := vC17Env()
	pre := vInstallBindings(e)
	nhops := vh.ConcretizeInt(vh.Int("nhops"), 0, 2)
	conn := vh.ConcretizeInt(vh.Int("conn"), 0, 2) // 2 = unknown connection
	var hops []string
	for h := 0; h < nhops; h++ {
		if conn < 2 {
			hops = append(hops, vC17Conns[conn])
		} else {
			hops = append(hops, "connection-9")
		}
	}
	newCh := "channel-1"
	// owner of the hop's client, if any
	owner := -1
	if conn < 2 {
		for i := range vC17Consumers {
			if pre.client[i] == conn {
				owner = i
			}
		}
	}
	okWanted := nhops == 1 && conn < 2 && owner >= 0 && pre.channel[owner] == -1

	err := e.k.VerifyConsumerChain(e.ctx, newCh, hops)
	vh.Reach("after-try")
	vh.Assert((err == nil) == okWanted, "C17.try-accepted-iff-single-hop-on-the-client-of-exactly-one-channelless-consumer")
	post, inv := vReadBindings(e)
	vh.Assert(inv, "C17.try-preserves-one-to-one-bindings")
	for i := range vC17Consumers {
		vh.Assert(post.client[i] == pre.client[i] && post.channel[i] == pre.channel[i], "C17.try-writes-nothing")
	}

	// confirm on a channel with these hops (channel-1 must not already be bound)
	bound := false
	for i := range vC17Consumers {
		if pre.channel[i] == 1 {
			bound = true
		}
	}
	if bound {
		return
	}
	chk.channels[newCh] = channeltypes.Channel{ConnectionHops: hops, State: channeltypes.OPEN, Ordering: channeltypes.ORDERED}
	err2 := e.k.SetConsumerChain(e.ctx, newCh)
	vh.Reach("after-confirm")
	vh.Assert((err2 == nil) == okWanted, "C17.confirm-accepted-iff-same-conditions")
	post2, inv2 := vReadBindings(e)
	vh.Assert(inv2, "C17.confirm-preserves-one-to-one-bindings")
	for i := range vC17Consumers {
		vh.Assert(post2.client[i] == pre.client[i], "C17.confirm-keeps-client-bindings")
		if err2 == nil && i == owner {
			vh.Assert(post2.channel[i] == 1, "C17.confirm-binds-channel-to-the-consumer-launched-with-the-client")
			h, f := e.k.GetInitChainHeight(e.ctx, vC17Consumers[i])
			vh.Assert(f && h == uint64(e.ctx.BlockHeight()), "C17.confirm-records-channel-open-height")
		} else {
			vh.Assert(post2.channel[i] == pre.channel[i], "C17.confirm-touches-no-other-consumer")
		}
	}
	if err2 == nil {
		cid, f := e.k.GetChannelIdToConsumerId(e.ctx, newCh)
		vh.Assert(f && cid == vC17Consumers[owner], "C17.packets-on-channel-attributed-to-owner-of-client")
	}
}

// VerifC17LaunchBinding: binding written at launch, (a) through a fresh client
// (CreateConsumerClient) and (b) on a named existing connection
// (MakeConsumerGenesis, connection branch), and removal of a binding, from any Inv_17 state.
func VerifC17LaunchBinding() {
	e, _, clk, _ := vC17Env()
	pre := vInstallBindings(e)
	target := vh.ConcretizeInt(vh.Int("target"), 0, len(vC17Consumers)-1)
	cid := vC17Consumers[target]
	op := vh.Bound("op", 0)
	switch op {
	case 0: // fresh client
		vh.Assume(pre.client[target] == -1)
		e.k.SetConsumerPhase(e.ctx, cid, types.CONSUMER_PHASE_INITIALIZED)
		e.k.SetConsumerChainId(e.ctx, cid, "chain-x")
		vh.Assert(e.k.SetConsumerInitializationParameters(e.ctx, cid, vInitParams("")) == nil, "C17.setup")
		err := e.k.CreateConsumerClient(e.ctx, cid, []byte{1})
		vh.Reach("after-create-client")
		vh.Assert(err == nil, "C17.create-client-succeeds")
		_, inv := vReadBindings(e)
		vh.Assert(inv, "C17.fresh-client-launch-preserves-one-to-one-bindings")
		got, f := e.k.GetConsumerClientId(e.ctx, cid)
		vh.Assert(f && len(clk.created) == 1 && got == clk.created[0], "C17.fresh-client-recorded")
	case 1: // existing connection
		vh.Assume(pre.client[target] == -1)
		conn := vh.ConcretizeInt(vh.Int("conn"), 0, 1)
		e.k.SetConsumerPhase(e.ctx, cid, types.CONSUMER_PHASE_INITIALIZED)
		if conn == 0 {
			e.k.SetConsumerChainId(e.ctx, cid, "chain-a")
		} else {
			e.k.SetConsumerChainId(e.ctx, cid, "chain-b")
		}
		vh.Assert(e.k.SetConsumerInitializationParameters(e.ctx, cid, vInitParams(vC17Conns[conn])) == nil, "C17.setup")
		// consumers that hold a client are launched or stopped (a stopped consumer keeps its
		// client until it is removed)
		for i, c := range vC17Consumers {
			if i != target && pre.client[i] >= 0 {
				// bound independent_phases=0 (quick tier): all holders share one phase choice
				name := "holders_stopped"
				if vh.Bound("independent_phases", 0) == 1 {
					name = vh.Sprintf("stopped_%d", i)
				}
				if vh.ConcretizeInt(vh.Int(name), 0, 1) == 1 {
					e.k.SetConsumerPhase(e.ctx, c, types.CONSUMER_PHASE_STOPPED)
				} else {
					e.k.SetConsumerPhase(e.ctx, c, types.CONSUMER_PHASE_LAUNCHED)
				}
			}
		}
		_, err := e.k.MakeConsumerGenesis(e.ctx, cid, nil)
		vh.Reach("after-genesis-on-connection")
		post, inv := vReadBindings(e)
		vh.Info("launch on an existing connection")
		vh.Assert(inv, "C17.launch-on-connection-preserves-one-to-one-bindings")
		if err == nil {
			vh.Assert(post.client[target] == conn, "C17.launch-on-connection-binds-the-connections-client")
		}
		for i := range vC17Consumers {
			if i != target {
				vh.Assert(post.client[i] == pre.client[i], "C17.launch-on-connection-keeps-other-consumers-client")
			}
		}
	default: // removal
		e.k.DeleteConsumerClientId(e.ctx, cid)
		vh.Reach("after-delete")
		post, inv := vReadBindings(e)
		// the channel maps are deleted separately by DeleteConsumerChain; here only the client part
		_ = inv
		vh.Assert(post.client[target] == -1, "C17.delete-removes-binding")
		for i := range vC17Consumers {
			if i != target {
				vh.Assert(post.client[i] == pre.client[i], "C17.delete-keeps-other-consumers-client")
				if pre.client[i] >= 0 {
					back, f := e.k.GetClientIdToConsumerId(e.ctx, vC17Clients[pre.client[i]])
					vh.Assert(f && back == vC17Consumers[i], "C17.delete-keeps-other-reverse-entries")
				}
			}
		}
	}
}
