//go:build verif

package keeper

import (
	"bytes"

	abci "github.com/cometbft/cometbft/abci/types"
	tmprotocrypto "github.com/cometbft/cometbft/proto/tendermint/crypto"
	ibctmtypes "github.com/cosmos/ibc-go/v10/modules/light-clients/07-tendermint"

	"github.com/cosmos/interchain-security/v7/x/ccv/provider/types"
	"github.com/cosmos/interchain-security/v7/x/ccv/vh"
)

func vPubKey(j int) tmprotocrypto.PublicKey {
	return tmprotocrypto.PublicKey{Sum: &tmprotocrypto.PublicKey_Ed25519{Ed25519: vh.PubKeyBytes(j)}}
}

// vKeyId returns the identity (index in the key universe 0..k-1) of a public key, -1 if foreign.
func vKeyId(pk tmprotocrypto.PublicKey, k int) int {
	for j := 0; j < k; j++ {
		if bytes.Equal(pk.GetEd25519(), vh.PubKeyBytes(j)) {
			return j
		}
	}
	return -1
}

// vSet is a validator set over a concrete key universe: presence and power per key.
type vSet struct {
	in    []bool
	power []int64
}

func vNewSet(k int) vSet { return vSet{in: make([]bool, k), power: make([]int64, k)} }

// vApply applies validator updates with CometBFT semantics (power 0 removes).
// ok=false if an update removes an absent key or a key occurs twice.
func vApply(s vSet, ups []abci.ValidatorUpdate, k int) (vSet, bool) {
	out := vNewSet(k)
	copy(out.in, s.in)
	copy(out.power, s.power)
	ok := true
	seen := make([]bool, k)
	for _, u := range ups {
		j := vKeyId(u.PubKey, k)
		if j < 0 {
			return out, false
		}
		if seen[j] {
			ok = false
		}
		seen[j] = true
		isRemoval := u.Power == 0
		ok = vh.And(ok, vh.Implies(isRemoval, out.in[j]))
		out.in[j] = !isRemoval
		out.power[j] = u.Power
	}
	return out, ok
}

func vSetEq(a, b vSet, k int) bool {
	eq := true
	for j := 0; j < k; j++ {
		eq = vh.And(eq, a.in[j] == b.in[j])
		eq = vh.And(eq, vh.Implies(a.in[j], a.power[j] == b.power[j]))
	}
	return eq
}

func vSetOf(vals []types.ConsensusValidator, k int) (vSet, bool) {
	s := vNewSet(k)
	for _, v := range vals {
		j := vKeyId(*v.PublicKey, k)
		if j < 0 || s.in[j] {
			return s, false
		}
		s.in[j] = true
		s.power[j] = v.Power
	}
	return s, true
}

// vSymbolicValList builds an arbitrary key-distinct list of consensus validators
// over the key universe (membership and powers symbolic, powers >= 1).
func vSymbolicValList(prefix string, k int) []types.ConsensusValidator {
	var out []types.ConsensusValidator
	for j := 0; j < k; j++ {
		if vh.Bool(vh.Sprintf("%s_in%d", prefix, j)) {
			p := vh.Int64(vh.Sprintf("%s_p%d", prefix, j))
			vh.Assume(p >= 1)
			pk := vPubKey(j)
			out = append(out, types.ConsensusValidator{ProviderConsAddr: []byte{byte(j)}, Power: p, PublicKey: &pk})
		}
	}
	return out
}

// VerifC01Diff (L1): apply(DiffValidators(cur,next), cur) == next, no key twice,
// no removal of an absent key, for all key-distinct sets over the key universe.
func VerifC01Diff() {
	k := vh.Bound("keys", 3)
	cur := vSymbolicValList("cur", k)
	next := vSymbolicValList("next", k)
	curSet, _ := vSetOf(cur, k)
	nextSet, _ := vSetOf(next, k)
	ups := DiffValidators(cur, next)
	vh.Reach("after-diff")
	got, ok := vApply(curSet, ups, k)
	vh.Assert(ok, "C01.diff.wellformed-updates")
	vh.Assert(vSetEq(got, nextSet, k), "C01.diff.apply-yields-next")
	// minimality: no update for a key whose membership and power are unchanged
	for _, u := range ups {
		j := vKeyId(u.PubKey, k)
		unchanged := vh.And(vh.And(curSet.in[j], nextSet.in[j]), curSet.power[j] == nextSet.power[j])
		vh.Assert(!unchanged, "C01.diff.no-spurious-update")
	}
}

func vParams(maxProviderVals int64, blocksPerEpoch int64) types.Params {
	return types.Params{
		TemplateClient:                        &ibctmtypes.ClientState{},
		TrustingPeriodFraction:                "0.66",
		CcvTimeoutPeriod:                      2419200000000000,
		SlashMeterReplenishPeriod:             3600000000000,
		SlashMeterReplenishFraction:           "0.05",
		BlocksPerEpoch:                        blocksPerEpoch,
		NumberOfEpochsToStartReceivingRewards: 24,
		MaxProviderConsensusValidators:        maxProviderVals,
	}
}

// VerifC15ProviderSet: from any recorded set and any staking state, the set
// recorded by ProviderValidatorUpdates is the first min(M,#bonded) validators
// of the staking order with provider keys and last powers, and the returned
// updates are exactly the difference to the previously recorded set.
func VerifC15ProviderSet() {
	nv := vh.Bound("vals", 3)
	e := newVEnv(nv)
	m := vh.Int64("M")
	vh.Assume(m >= 1)
	vh.Assume(m <= 1<<62) // any positive parameter value, far beyond the number of validators
	e.k.SetParams(e.ctx, vParams(m, 600))
	// arbitrary previously recorded set (keys = provider keys of the universe)
	prev := vNewSet(nv)
	for i := 0; i < nv; i++ {
		if vh.Bool(vh.Sprintf("stored%d", i)) {
			p := vh.Int64(vh.Sprintf("storedpower%d", i))
			vh.Assume(p >= 1)
			pk := vPubKey(i)
			err := e.k.SetLastProviderConsensusValidator(e.ctx, types.ConsensusValidator{ProviderConsAddr: vConsAddr(i), Power: p, PublicKey: &pk})
			vh.Assert(err == nil, "C15.setup")
			prev.in[i] = true
			prev.power[i] = p
		}
	}
	// contract of x/staking: active validators have power >= 1
	for i := 0; i < nv; i++ {
		vh.Assume(vh.Implies(e.st.isActive(i), e.st.power[i] >= 1))
	}
	ups, err := e.k.ProviderValidatorUpdates(e.ctx)
	vh.Reach("after-updates")
	vh.Assert(err == nil, "C15.no-error")
	stored, err2 := e.k.GetLastProviderConsensusValSet(e.ctx)
	vh.Assert(err2 == nil, "C15.read-back")
	ord := e.st.order()
	want := len(ord)
	if m < int64(len(ord)) {
		want = vh.ConcretizeInt(int(m), 0, len(ord))
	}
	vh.Assert(len(stored) == want, "C15.size-is-min(M,bonded)")
	vh.Assert(int64(len(stored)) <= m, "C15.never-exceeds-M")
	storedSet, distinct := vSetOf(stored, nv)
	vh.Assert(distinct, "C15.keys-distinct-and-provider-keys")
	expect := vNewSet(nv)
	for j := 0; j < want; j++ {
		expect.in[ord[j]] = true
		expect.power[ord[j]] = e.st.power[ord[j]]
	}
	vh.Assert(vSetEq(storedSet, expect, nv), "C15.recorded-set-is-top-M-by-staking-order")
	for _, v := range stored {
		j := vKeyId(*v.PublicKey, nv)
		vh.Assert(bytes.Equal(v.ProviderConsAddr, vConsAddr(j)), "C15.address-matches-key")
	}
	got, ok := vApply(prev, ups, nv)
	vh.Assert(ok, "C15.updates-wellformed")
	vh.Assert(vSetEq(got, storedSet, nv), "C15.updates-are-diff-to-recorded-set")
}

// VerifC15Genesis: InitGenesisValUpdates (chain start or restart from exported
// genesis) records and hands to the consensus engine the same set: the first
// min(M, bonded) validators of the staking order at their staking power, keyed
// by their provider keys.
func VerifC15Genesis() {
	nv := vh.Bound("vals", 3)
	e := newVEnv(nv)
	m := vh.Int64("M")
	vh.Assume(m >= 1)
	vh.Assume(m <= 1<<62)
	e.k.SetParams(e.ctx, vParams(m, 600))
	for i := 0; i < nv; i++ {
		vh.Assume(vh.Implies(e.st.isActive(i), e.st.power[i] >= 1))
	}
	ups := e.k.InitGenesisValUpdates(e.ctx)
	vh.Reach("after-genesis")
	stored, err := e.k.GetLastProviderConsensusValSet(e.ctx)
	vh.Assert(err == nil, "C15.read-back")
	ord := e.st.order()
	want := len(ord)
	if m < int64(len(ord)) {
		want = vh.ConcretizeInt(int(m), 0, len(ord))
	}
	vh.Assert(len(stored) == want, "C15.genesis.size-is-min(M,bonded)")
	vh.Assert(int64(len(stored)) <= m, "C15.never-exceeds-M")
	storedSet, distinct := vSetOf(stored, nv)
	vh.Assert(distinct, "C15.keys-distinct-and-provider-keys")
	expect := vNewSet(nv)
	for j := 0; j < want; j++ {
		expect.in[ord[j]] = true
		expect.power[ord[j]] = e.st.power[ord[j]]
	}
	vh.Assert(vSetEq(storedSet, expect, nv), "C15.genesis.recorded-set-is-top-M-by-staking-order")
	got, ok := vApply(vNewSet(nv), ups, nv)
	vh.Assert(ok, "C15.updates-wellformed")
	vh.Assert(vSetEq(got, storedSet, nv), "C15.genesis.engine-receives-exactly-the-recorded-set")
}
