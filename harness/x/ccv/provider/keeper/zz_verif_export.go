//go:build verif

package keeper

import (
	sdk "github.com/cosmos/cosmos-sdk/types"

	channeltypes "github.com/cosmos/ibc-go/v10/modules/core/04-channel/types"
)

// VerifHandshakeEnv is the exported face of the C17 environment for harnesses
// living in package provider (the IBC module callbacks).
type VerifHandshakeEnv struct {
	Ctx    sdk.Context
	K      *Keeper
	e      *vEnv
	chk    *vChannelKeeper
	Client []int
	Chan   []int
}

// VerifNewHandshakeEnv installs an arbitrary binding state (Inv_17) and returns it.
func VerifNewHandshakeEnv() *VerifHandshakeEnv {
	e, _, _, chk := vC17Env()
	e.k.accountKeeper = vAccountKeeper2{}
	b := vInstallBindings(e)
	return &VerifHandshakeEnv{Ctx: e.ctx, K: &e.k, e: e, chk: chk, Client: b.client, Chan: b.channel}
}

func (h *VerifHandshakeEnv) Consumers() []string   { return vC17Consumers }
func (h *VerifHandshakeEnv) Connections() []string { return vC17Conns }

func (h *VerifHandshakeEnv) AddChannel(id string, hops []string) {
	h.chk.channels[id] = channeltypes.Channel{ConnectionHops: hops, State: channeltypes.OPEN, Ordering: channeltypes.ORDERED}
}

// Bindings reads the bindings back; ok reports whether the maps are still mutually inverse injections.
func (h *VerifHandshakeEnv) Bindings() (client, channel []int, ok bool) {
	b, inv := vReadBindings(h.e)
	return b.client, b.channel, inv
}

// VerifNewBareHandshakeEnv is the C17 environment without any binding installed.
func VerifNewBareHandshakeEnv() *VerifHandshakeEnv {
	e, _, _, chk := vC17Env()
	e.k.accountKeeper = vAccountKeeper2{}
	n := len(vC17Consumers)
	h := &VerifHandshakeEnv{Ctx: e.ctx, K: &e.k, e: e, chk: chk, Client: make([]int, n), Chan: make([]int, n)}
	for i := range h.Client {
		h.Client[i], h.Chan[i] = -1, -1
	}
	return h
}

// Bind gives consumer i the client with index cl and, if ch >= 0, the CCV channel with index ch.
func (h *VerifHandshakeEnv) Bind(i, cl, ch int) {
	c := vC17Consumers[i]
	h.K.SetConsumerClientId(h.Ctx, c, vC17Clients[cl])
	h.Client[i] = cl
	if ch >= 0 {
		h.K.SetConsumerIdToChannelId(h.Ctx, c, vC17Channels[ch])
		h.K.SetChannelToConsumerId(h.Ctx, vC17Channels[ch], c)
		h.Chan[i] = ch
	}
}
