//go:build verif

package keeper

import (
	"bytes"

	"cosmossdk.io/math"

	"github.com/cosmos/interchain-security/v7/x/ccv/provider/types"
	"github.com/cosmos/interchain-security/v7/x/ccv/vh"
)

type vKV struct{ k, v []byte }

// vCellsOf collects every store cell attributable to consumer cid (same
// classification as vProtocolCellsOf, descriptive records included).
func vCellsOf(e *vEnv, cid string) []vKV {
	store := e.ctx.KVStore(e.key)
	it := store.Iterator(nil, nil)
	defer it.Close()
	legacy := map[byte]bool{}
	for _, k := range [][]byte{types.ConsumerIdToChannelIdKey(""), types.ConsumerIdToClientIdKey(""), types.ConsumerGenesisKey(""), types.SlashAcksKey(""), types.InitChainHeightKey(""), types.PendingVSCsKey(""), types.EquivocationEvidenceMinHeightKey("")} {
		legacy[k[0]] = true
	}
	queues := map[byte]bool{types.SpawnTimeToConsumerIdsKeyPrefix(): true, types.RemovalTimeToConsumerIdsKeyPrefix(): true, types.InfractionScheduledTimeToConsumerIdsKeyPrefix(): true}
	chanToConsumer := types.ChannelToConsumerIdKey("")[0]
	clientToConsumer := types.ClientIdToConsumerIdKey("")[0]
	global := map[byte]bool{types.ParametersKey()[0]: true, types.PortKey()[0]: true, types.ValidatorSetUpdateIdKey()[0]: true,
		types.SlashMeterKey()[0]: true, types.SlashMeterReplenishTimeCandidateKey()[0]: true, types.ValsetUpdateBlockHeightKeyPrefix()[0]: true,
		types.LastProviderConsensusValsPrefix()[0]: true, types.ConsumerIdKey()[0]: true, types.ConsumerRewardDenomsKeyPrefix()[0]: true}
	var out []vKV
	for ; it.Valid(); it.Next() {
		key := it.Key()
		p := key[0]
		mine := false
		switch {
		case global[p]:
		case legacy[p]:
			mine = string(key[1:]) == cid
		case p == chanToConsumer || p == clientToConsumer:
			mine = string(it.Value()) == cid
		case queues[p]:
			// shared time-queue cells: only the membership of cid is attributable to it
			var ids types.ConsumerIds
			if ids.Unmarshal(it.Value()) == nil && vContains(ids.Ids, cid) {
				out = append(out, vKV{key, []byte("member")})
			}
			continue
		default:
			id, ok := vIdOfLenKey(key)
			mine = ok && id == cid
		}
		if mine {
			out = append(out, vKV{key, it.Value()})
		}
	}
	return out
}

func vSameCells(a, b []vKV) bool {
	if len(a) != len(b) {
		return false
	}
	same := true
	for i := range a {
		same = vh.And(same, vh.And(bytes.Equal(a[i].k, b[i].k), bytes.Equal(a[i].v, b[i].v)))
	}
	return same
}

// VerifC13Frame: consumers "1" and "10" (one id a textual prefix of the other)
// hold a cell in every per-consumer key space; one per-consumer operation is
// run on "1"; afterwards every cell of "10" - keys and values, including its
// entries in the shared time queues - is byte-for-byte what it was.
func VerifC13Frame() {
	e, _, _, chk := vC17Env()
	e.k.accountKeeper = vAccountKeeper{}
	vPopulateConsumer(e, "1", "07-tendermint-0", "channel-0")
	vPopulateConsumer(e, "10", "07-tendermint-1", "channel-1")
	_ = chk
	e.k.SetConsumerPhase(e.ctx, "10", types.CONSUMER_PHASE_LAUNCHED)
	phase := types.ConsumerPhase(vh.ConcretizeInt(vh.Int("phase_of_1"), 1, 4))
	e.k.SetConsumerPhase(e.ctx, "1", phase)
	vStakingAllActive(e.st)
	before := vCellsOf(e, "10")
	vh.Assert(len(before) >= 25, "C13.frame.setup-populates-other-consumer")
	pa := types.NewProviderConsAddress(vConsAddr(0))
	srv := msgServer{Keeper: &e.k}
	switch vh.Bound("op", 0) {
	case 0:
		_ = e.k.DeleteConsumerChain(e.ctx, "1")
	case 1:
		_ = e.k.SetConsumerPowerShapingParameters(e.ctx, "1", types.PowerShapingParameters{
			Allowlist: []string{vConsAddr(1).String()}, Denylist: []string{vConsAddr(0).String()}, Prioritylist: []string{vConsAddr(1).String()}})
	case 2:
		e.k.DeleteKeyAssignments(e.ctx, "1")
		e.k.DeleteAllOptedIn(e.ctx, "1")
		e.k.DeleteConsumerValSet(e.ctx, "1")
		e.k.DeleteAllowlist(e.ctx, "1")
		e.k.DeleteDenylist(e.ctx, "1")
		e.k.DeletePrioritylist(e.ctx, "1")
		for _, a := range e.k.GetAllCommissionRateValidators(e.ctx, "1") {
			e.k.DeleteConsumerCommissionRate(e.ctx, "1", a)
		}
	case 3:
		_ = e.k.HandleOptIn(e.ctx, "1", pa, "")
		_ = e.k.HandleOptOut(e.ctx, "1", pa)
		_ = e.k.AssignConsumerKey(e.ctx, "1", e.st.vals[0], vPubKey(103))
		_ = e.k.HandleSetConsumerCommissionRate(e.ctx, "1", pa, math.LegacyNewDecWithPrec(7, 1))
	case 4:
		_ = e.k.UpdateQueuedInfractionParams(e.ctx, "1", vSymbolicInfractionParams("req_"))
		e.k.PruneKeyAssignments(e.ctx, "1")
	case 5:
		_ = e.k.StopAndPrepareForConsumerRemoval(e.ctx, "1")
		_ = e.k.StopAndPrepareForConsumerRemoval(e.ctx, "1") // stopped twice (several in-flight packets timing out)
		_ = e.k.DeleteConsumerChain(e.ctx, "1")
	case 6:
		_, _ = srv.UpdateConsumer(e.ctx, &types.MsgUpdateConsumer{Owner: vUser(0), ConsumerId: "1", NewOwnerAddress: vUser(1),
			Metadata:               &types.ConsumerMetadata{Name: "x", Description: "y", Metadata: "z"},
			PowerShapingParameters: &types.PowerShapingParameters{ValidatorSetCap: 3, Allowlist: []string{vConsAddr(0).String()}},
			InfractionParameters:   &types.InfractionParameters{Downtime: vConcreteInfraction().Downtime}})
	default:
		bonded, _ := e.k.GetLastBondedValidators(e.ctx)
		cur, _ := e.k.GetConsumerValSet(e.ctx, "1")
		_, _ = e.k.ComputeConsumerNextValSet(e.ctx, bonded, bonded, "1", cur)
		_ = e.k.SetConsumerValSet(e.ctx, "1", nil)
	}
	vh.Reach("after-op")
	after := vCellsOf(e, "10")
	vh.Assert(vSameCells(before, after), "C13.frame.operation-on-one-consumer-leaves-every-cell-of-the-other-unchanged")
}
