//go:build verif

package keeper

import (
	"bytes"
	"errors"

	"cosmossdk.io/math"

	stakingtypes "github.com/cosmos/cosmos-sdk/x/staking/types"

	"github.com/cosmos/interchain-security/v7/x/ccv/provider/types"
	"github.com/cosmos/interchain-security/v7/x/ccv/vh"
)

// vPerValState installs symbolic per-validator consumer state (opt-in, lists,
// assigned key) for consumer cid and returns the symbolic flags.
type vConsumerFlags struct {
	opted, allow, deny, prio, hasKey []bool
}

func vInstallConsumerFlags(e *vEnv, cid string, prefix string, withKeys bool) vConsumerFlags {
	n := e.st.n
	f := vConsumerFlags{make([]bool, n), make([]bool, n), make([]bool, n), make([]bool, n), make([]bool, n)}
	for i := 0; i < n; i++ {
		pa := types.NewProviderConsAddress(vConsAddr(i))
		f.opted[i] = vh.Bool(vh.Sprintf("%sopted%d", prefix, i))
		if vh.Guard(f.opted[i]) {
			e.k.SetOptedIn(e.ctx, cid, pa)
		}
		vh.EndGuard()
		f.allow[i] = vh.Bool(vh.Sprintf("%sallow%d", prefix, i))
		if vh.Guard(f.allow[i]) {
			e.k.SetAllowlist(e.ctx, cid, pa)
		}
		vh.EndGuard()
		f.deny[i] = vh.Bool(vh.Sprintf("%sdeny%d", prefix, i))
		if vh.Guard(f.deny[i]) {
			e.k.SetDenylist(e.ctx, cid, pa)
		}
		vh.EndGuard()
		if withKeys {
			f.hasKey[i] = vh.Bool(vh.Sprintf("%shaskey%d", prefix, i))
			if vh.Guard(f.hasKey[i]) {
				e.k.SetValidatorConsumerPubKey(e.ctx, cid, pa, vPubKey(100+i))
			}
			vh.EndGuard()
		}
	}
	return f
}

func vAny(bs []bool) bool {
	r := false
	for _, b := range bs {
		r = vh.Or(r, b)
	}
	return r
}

// vStakingContract: what x/staking guarantees for validators returned by the
// bonded-by-power index: last power = tokens / powerReduction >= 1.
func vStakingContract(st *vStaking) {
	for i := 0; i < st.n; i++ {
		pw := st.vals[i].Tokens.Quo(math.NewInt(1000000))
		vh.Assume(vh.Implies(st.isActive(i), vh.And(pw.Equal(math.NewInt(st.power[i])), st.power[i] >= 1)))
	}
}

// VerifC02NextValidators: membership, power and key of every validator in the
// set ComputeNextValidators returns (no validator-set cap, no power cap), and
// completeness, against the eligibility conditions written over the stub state.
func VerifC02NextValidators() {
	nv := vh.Bound("vals", 3)
	cid := "1"
	e := newVEnv(nv)
	m := vh.Int64("M")
	vh.Assume(m >= 1)
	vh.Assume(m <= 1<<62)
	e.k.SetParams(e.ctx, vParams(m, 600))
	vStakingContract(e.st)
	// known finding F1 (see known_findings.json): two active validators with equal
	// voting power but different token amounts.  kf_mode 0 excludes that input
	// region (everything else must hold), kf_mode 1 searches only inside it.
	tie := false
	for i := 0; i < nv; i++ {
		for j := 0; j < nv; j++ {
			if i != j {
				both := vh.And(e.st.isActive(i), e.st.isActive(j))
				tie = vh.Or(tie, vh.And(both, vh.And(e.st.power[i] == e.st.power[j], !e.st.vals[i].Tokens.Equal(e.st.vals[j].Tokens))))
			}
		}
	}
	if vh.Bound("kf_mode", 0) == 0 {
		vh.Assume(!tie)
	} else {
		vh.Assume(tie)
	}
	f := vInstallConsumerFlags(e, cid, "", true)
	topN := vh.Uint32("topN")
	vh.Assume(vh.Or(topN == 0, vh.And(topN >= 50, topN <= 100)))
	minStake := vh.Uint64("minStake")
	vh.Assume(minStake <= 1<<62)
	allowInactive := vh.Bool("allowInactive")
	minPower := vh.Int64("minPower")
	vh.Assume(minPower >= 0)
	psp := types.PowerShapingParameters{Top_N: topN, MinStake: minStake, AllowInactiveVals: allowInactive}

	bonded, err := e.st.GetBondedValidatorsByPower(e.ctx)
	vh.Assert(err == nil, "C02.setup")
	ord := e.st.order()
	next, err := e.k.ComputeNextValidators(e.ctx, cid, bonded, psp, minPower)
	vh.Reach("after-compute")
	vh.Assert(err == nil, "C02.no-error")

	// provider's own active set from the same state: first min(M,#active) of the staking order
	providerActive := make([]bool, nv)
	for j := 0; j < len(ord) && int64(j) < m; j++ {
		providerActive[ord[j]] = true
	}
	allowEmpty, denyEmpty := !vAny(f.allow), !vAny(f.deny)
	got := make([]bool, nv)
	for _, v := range next {
		i := e.st.idxByCons(v.ProviderConsAddr)
		vh.Assert(i >= 0, "C02.member-is-known-validator")
		vh.Assert(!got[i], "C02.no-duplicates")
		got[i] = true
		vh.Assert(e.st.isActive(i), "C02.member-bonded-and-not-jailed")
		vh.Assert(vh.Or(f.opted[i], vh.And(topN > 0, e.st.power[i] >= minPower)), "C02.member-opted-in-or-topN")
		vh.Assert(vh.Or(allowEmpty, f.allow[i]), "C02.member-allowlisted")
		vh.Assert(vh.Or(denyEmpty, !f.deny[i]), "C02.member-not-denylisted")
		vh.Assert(vh.Or(minStake == 0, e.st.vals[i].Tokens.GTE(math.NewIntFromUint64(minStake))), "C02.member-min-stake")
		vh.Assert(vh.Or(allowInactive, providerActive[i]), "C02.member-in-provider-active-set")
		vh.Assert(v.Power == e.st.power[i], "C02.power-equals-provider-power")
		wantKey := vh.PubKeyBytes(i)
		if f.hasKey[i] {
			wantKey = vh.PubKeyBytes(100 + i)
		}
		vh.Assert(bytes.Equal(v.PublicKey.GetEd25519(), wantKey), "C02.key-assigned-else-provider-key")
	}
	for i := 0; i < nv; i++ {
		eligible := vh.And(e.st.isActive(i), vh.Or(f.opted[i], vh.And(topN > 0, e.st.power[i] >= minPower)))
		eligible = vh.And(eligible, vh.Or(allowEmpty, f.allow[i]))
		eligible = vh.And(eligible, vh.Or(denyEmpty, !f.deny[i]))
		eligible = vh.And(eligible, vh.Or(minStake == 0, e.st.vals[i].Tokens.GTE(math.NewIntFromUint64(minStake))))
		eligible = vh.And(eligible, vh.Or(allowInactive, providerActive[i]))
		vh.Assert(vh.Implies(eligible, got[i]), "C02.every-eligible-validator-included")
	}
}

// VerifC03MinPower (a): ComputeMinPowerInTopN returns the power m of the last
// validator of the smallest top-by-power prefix holding >= N percent, in exact
// integer arithmetic, for every power vector and every N in [50,100].
func VerifC03MinPower() {
	nv := vh.Bound("vals", 3)
	e := newVEnv(nv)
	maxTotal := int64(1) << uint(vh.Bound("log2total", 53))
	var active []stakingtypes.Validator
	total := int64(0)
	for i := 0; i < nv; i++ {
		vh.Assume(e.st.isActive(i))
		vh.Assume(e.st.power[i] >= 1)
		active = append(active, e.st.vals[i])
		total += e.st.power[i]
	}
	vh.Assume(total <= maxTotal)
	n := vh.Uint32("N")
	vh.Assume(n >= 50)
	vh.Assume(n <= 100)
	if vh.Bound("large_window", 0) == 1 && nv == 3 {
		// a window of large totals (about 2*10^16 > 2^54): one dominant validator and
		// two small ones, N = 99 — the region where an 18-digit decimal quotient
		// cannot resolve one unit of voting power
		vh.Assume(n == 99)
		vh.Assume(e.st.power[0] >= 19800000000000000)
		vh.Assume(e.st.power[0] <= 19800000000001000)
		for i := 1; i < nv; i++ {
			vh.Assume(e.st.power[i] >= 100000000000000)
			vh.Assume(e.st.power[i] <= 100000000000010)
		}
	}
	mp, err := e.k.ComputeMinPowerInTopN(e.ctx, active, n)
	vh.Reach("after-minpower")
	vh.Assert(err == nil, "C03.minpower.no-error")
	geSum, gtSum := int64(0), int64(0)
	isOne := false
	for i := 0; i < nv; i++ {
		p := e.st.power[i]
		geSum += vh.IteInt64(p >= mp, p, 0)
		gtSum += vh.IteInt64(p > mp, p, 0)
		isOne = vh.Or(isOne, p == mp)
	}
	vh.Assert(isOne, "C03.minpower.is-a-validator-power")
	nn, tt := math.NewInt(int64(n)), math.NewInt(total)
	vh.Assert(math.NewInt(geSum).MulRaw(100).GTE(nn.Mul(tt)), "C03.minpower.set-holds-N-percent")
	vh.Assert(math.NewInt(gtSum).MulRaw(100).LT(nn.Mul(tt)), "C03.minpower.smallest-such-threshold")
}

// VerifC03OptOut (c): HandleOptOut on a launched Top-N consumer fails with
// ErrCannotOptOutFromTopN, leaving the opt-in in place, iff the validator's
// current power is at least the stored threshold.
func VerifC03OptOut() {
	nv := vh.Bound("vals", 2)
	cid := "1"
	e := newVEnv(nv)
	f := vInstallConsumerFlags(e, cid, "", false)
	topN := vh.Uint32("topN")
	vh.Assume(vh.Or(topN == 0, vh.And(topN >= 50, topN <= 100)))
	e.k.SetConsumerPhase(e.ctx, cid, types.CONSUMER_PHASE_LAUNCHED)
	err := e.k.SetConsumerPowerShapingParameters(e.ctx, cid, types.PowerShapingParameters{Top_N: topN})
	vh.Assert(err == nil, "C03.optout.setup")
	thr := vh.Int64("threshold")
	vh.Assume(thr >= 0)
	hasThr := vh.Bool("hasThreshold")
	if vh.Guard(hasThr) {
		e.k.SetMinimumPowerInTopN(e.ctx, cid, thr)
	}
	vh.EndGuard()
	pa := types.NewProviderConsAddress(vConsAddr(0))
	err = e.k.HandleOptOut(e.ctx, cid, pa)
	vh.Reach("after-optout")
	stillOpted := e.k.IsOptedIn(e.ctx, cid, pa)
	curPower, _ := e.st.GetLastValidatorPower(e.ctx, vOperator(0))
	mustStay := vh.And(topN > 0, vh.And(hasThr, curPower >= thr))
	if err != nil {
		vh.Assert(stillOpted == f.opted[0], "C03.optout.rejected-changes-nothing")
	} else {
		vh.Assert(!stillOpted, "C03.optout.accepted-removes-optin")
	}
	vh.Assert(vh.Implies(mustStay, err != nil), "C03.optout.topN-validator-cannot-opt-out")
	vh.Assert(vh.Implies(mustStay, errors.Is(err, types.ErrCannotOptOutFromTopN)), "C03.optout.error-kind")
	vh.Assert(vh.Implies(vh.And(topN > 0, vh.And(hasThr, curPower < thr)), err == nil), "C03.optout.below-threshold-may-opt-out")
	// other validators' opt-ins untouched
	for i := 1; i < nv; i++ {
		vh.Assert(e.k.IsOptedIn(e.ctx, cid, types.NewProviderConsAddress(vConsAddr(i))) == f.opted[i], "C03.optout.others-untouched")
	}
}

// VerifC03TopNStep (b,d): one epoch step ComputeConsumerNextValSet for a Top-N
// consumer.  The provider's active set is the first M validators of the staking
// order; other bonded validators are inactive.  The stored threshold must be the
// one computed over the ACTIVE validators, every active validator at or above it
// ends up opted in and in the set, validators below it are in the set only if
// they had opted in themselves.
func VerifC03TopNStep() {
	nv := vh.Bound("vals", 3)
	cid := "1"
	e := newVEnv(nv)
	m := vh.Int64("M")
	vh.Assume(m >= 1)
	vh.Assume(m <= int64(nv))
	e.k.SetParams(e.ctx, vParams(m, 600))
	vStakingContract(e.st)
	for i := 0; i < nv; i++ {
		vh.Assume(e.st.isActive(i)) // all bonded; activity is decided by M
		// powers are case split over a tiny domain so that the threshold arithmetic folds to
		// constants (exactness for large totals is VerifC03MinPower's job); N, M, opt-ins stay symbolic
		if mp := vh.Bound("maxpower", 3); mp > 0 {
			e.st.power[i] = int64(vh.ConcretizeInt(int(e.st.power[i]), 1, mp))
		} else {
			vh.Assume(e.st.power[i] >= 1) // fully symbolic powers (bound log2power)
		}
	}
	// exclude the known finding F1 (equal power, different tokens)
	for i := 0; i < nv; i++ {
		for j := 0; j < nv; j++ {
			if i != j {
				vh.Assume(vh.Implies(e.st.power[i] == e.st.power[j], e.st.vals[i].Tokens.Equal(e.st.vals[j].Tokens)))
			}
		}
	}
	topN := vh.Uint32("topN")
	vh.Assume(topN >= 50)
	vh.Assume(topN <= 100)
	vh.Assert(e.k.SetConsumerPowerShapingParameters(e.ctx, cid, types.PowerShapingParameters{Top_N: topN}) == nil, "C03.step.setup")
	opted := make([]bool, nv)
	for i := 0; i < nv; i++ {
		opted[i] = vh.Bool(vh.Sprintf("opted%d", i))
		if vh.Guard(opted[i]) {
			e.k.SetOptedIn(e.ctx, cid, types.NewProviderConsAddress(vConsAddr(i)))
		}
		vh.EndGuard()
	}
	bonded, _ := e.k.GetLastBondedValidators(e.ctx)
	active, _ := e.k.GetLastProviderConsensusActiveValidators(e.ctx)
	want, werr := e.k.ComputeMinPowerInTopN(e.ctx, active, topN)
	vh.Assume(werr == nil)
	ord := e.st.order()
	isActive := make([]bool, nv)
	for j := 0; j < len(ord) && int64(j) < m; j++ {
		isActive[ord[j]] = true
	}

	_, err := e.k.ComputeConsumerNextValSet(e.ctx, bonded, active, cid, nil)

	vh.Reach("after-step")
	vh.Assert(err == nil, "C03.step.no-error")
	got, found := e.k.GetMinimumPowerInTopN(e.ctx, cid)
	vh.Assert(found && got == want, "C03.step.threshold-is-computed-over-the-active-set")
	set, _ := e.k.GetConsumerValSet(e.ctx, cid)
	inSet := make([]bool, nv)
	for _, v := range set {
		inSet[e.st.idxByCons(v.ProviderConsAddr)] = true
	}
	for i := 0; i < nv; i++ {
		nowOpted := e.k.IsOptedIn(e.ctx, cid, types.NewProviderConsAddress(vConsAddr(i)))
		forced := vh.And(isActive[i], e.st.power[i] >= want)
		vh.Assert(vh.Implies(forced, nowOpted), "C03.step.top-validators-automatically-opted-in")
		vh.Assert(vh.Implies(forced, inSet[i]), "C03.step.top-validators-included")
		vh.Assert(vh.Implies(vh.And(isActive[i], vh.And(!forced, !opted[i])), !inSet[i]), "C03.step.below-threshold-only-if-opted-in-themselves")
		vh.Assert(vh.Implies(!forced, nowOpted == opted[i]), "C03.step.no-other-opt-in-created")
	}
}

// VerifC02ListUpdate: SetConsumerPowerShapingParameters twice (first list,
// then replacement list; every list has 0..2 entries drawn from three
// validators, repetitions allowed): afterwards the allowlist, denylist and
// prioritylist indexes consulted by the validator-set computation hold exactly
// the addresses of the latest lists, and the stored parameters are the latest.
func VerifC02ListUpdate() {
	nv := 3
	cid := "1"
	e := newVEnv(1)
	addrs := make([]string, nv)
	for i := range addrs {
		addrs[i] = vConsAddr(i).String()
	}
	kind := vh.ConcretizeInt(vh.Int("list_kind"), 0, 2) // 0 allow, 1 deny, 2 priority
	pick := func(name string) []string {
		n := vh.ConcretizeInt(vh.Int(name+"_len"), 0, 2)
		var l []string
		for j := 0; j < n; j++ {
			l = append(l, addrs[vh.ConcretizeInt(vh.Int(vh.Sprintf("%s_%d", name, j)), 0, nv-1)])
		}
		return l
	}
	mk := func(l []string, cap uint32) types.PowerShapingParameters {
		p := types.PowerShapingParameters{ValidatorSetCap: cap}
		switch kind {
		case 0:
			p.Allowlist = l
		case 1:
			p.Denylist = l
		default:
			p.Prioritylist = l
		}
		return p
	}
	first, second := pick("first"), pick("second")
	vh.Assert(e.k.SetConsumerPowerShapingParameters(e.ctx, cid, mk(first, 1)) == nil, "C02.lists.set-no-error")
	vh.Assert(e.k.SetConsumerPowerShapingParameters(e.ctx, cid, mk(second, 2)) == nil, "C02.lists.set-no-error")
	vh.Reach("after-update")
	got, err := e.k.GetConsumerPowerShapingParameters(e.ctx, cid)
	vh.Assert(err == nil && got.ValidatorSetCap == 2, "C02.lists.latest-parameters-stored")
	for i := 0; i < nv; i++ {
		want := false
		for _, a := range second {
			if a == addrs[i] {
				want = true
			}
		}
		pa := types.NewProviderConsAddress(vConsAddr(i))
		var in bool
		switch kind {
		case 0:
			in = e.k.IsAllowlisted(e.ctx, cid, pa)
		case 1:
			in = e.k.IsDenylisted(e.ctx, cid, pa)
		default:
			in = e.k.IsPrioritylisted(e.ctx, cid, pa)
		}
		vh.Assert(in == want, "C02.lists.index-holds-exactly-the-latest-list")
	}
	var empty bool
	switch kind {
	case 0:
		empty = e.k.IsAllowlistEmpty(e.ctx, cid)
	case 1:
		empty = e.k.IsDenylistEmpty(e.ctx, cid)
	default:
		empty = e.k.IsPrioritylistEmpty(e.ctx, cid)
	}
	vh.Assert(empty == (len(second) == 0), "C02.lists.index-empty-iff-latest-list-empty")
}
