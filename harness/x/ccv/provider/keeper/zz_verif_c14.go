//go:build verif

package keeper

import (
	"context"

	"cosmossdk.io/math"

	addresscodec "cosmossdk.io/core/address"

	"github.com/cosmos/cosmos-sdk/codec/address"
	sdk "github.com/cosmos/cosmos-sdk/types"

	"github.com/cosmos/interchain-security/v7/x/ccv/provider/types"
	ccvtypes "github.com/cosmos/interchain-security/v7/x/ccv/types"
	"github.com/cosmos/interchain-security/v7/x/ccv/vh"
)

type vAccountKeeper struct{ ccvtypes.AccountKeeper }

func (vAccountKeeper) AddressCodec() addresscodec.Codec { return address.NewBech32Codec("cosmos") }

func (vAccountKeeper) GetModuleAccount(ctx context.Context, name string) sdk.ModuleAccountI { return nil }

func vUser(i int) string {
	b := make([]byte, 20)
	b[0] = byte(0xC0 + i)
	return sdk.AccAddress(b).String()
}

// vSenders: 0 = user A, 1 = user B, 2 = governance authority
func vSender(i int) string {
	if i == 2 {
		return vAuthority
	}
	return vUser(i)
}

// VerifC14UpdateConsumer: MsgUpdateConsumer with every combination of sender,
// stored owner, stored Top-N, new owner and new Top-N, executed inside a cache
// context as baseapp does: accepted only from the stored owner; the invariant
// "Top_N > 0 => owner is the authority and 50 <= Top_N <= 100" is preserved;
// ownership changes only by an explicit transfer; a rejected message leaves
// owner and power-shaping parameters unchanged.
func VerifC14UpdateConsumer() {
	cid := "1"
	e := newVEnv(1)
	e.k.accountKeeper = vAccountKeeper{}
	e.k.SetParams(e.ctx, vParams(100, 600))
	phase := types.ConsumerPhase(vh.ConcretizeInt(vh.Int("phase"), 1, 5))
	e.k.SetConsumerPhase(e.ctx, cid, phase)
	owner := vh.ConcretizeInt(vh.Int("owner"), 0, 2)
	e.k.SetConsumerOwnerAddress(e.ctx, cid, vSender(owner))
	e.k.SetConsumerChainId(e.ctx, cid, "chainone")
	topN0 := vh.Uint32("topN_pre")
	vh.Assume(vh.Or(topN0 == 0, vh.And(topN0 >= 50, topN0 <= 100)))
	vh.Assume(vh.Implies(topN0 > 0, owner == 2)) // invariant before
	vh.Assert(e.k.SetConsumerPowerShapingParameters(e.ctx, cid, types.PowerShapingParameters{Top_N: topN0}) == nil, "C14.setup")
	vh.Assert(e.k.SetConsumerInitializationParameters(e.ctx, cid, vInitParams("")) == nil, "C14.setup")
	vStakingAllActive(e.st)

	sender := vh.ConcretizeInt(vh.Int("sender"), 0, 2)
	newOwner := vh.ConcretizeInt(vh.Int("new_owner"), -1, 2) // -1: no transfer
	withPSP := vh.Bool("with_power_shaping")
	msg := &types.MsgUpdateConsumer{Owner: vSender(sender), ConsumerId: cid}
	if newOwner >= 0 {
		msg.NewOwnerAddress = vSender(newOwner)
	}
	topN1 := vh.Uint32("topN_new")
	if withPSP {
		msg.PowerShapingParameters = &types.PowerShapingParameters{Top_N: topN1}
	}
	// stateless validation runs before the handler
	vh.Assume(msg.ValidateBasic() == nil)

	cctx, write := e.ctx.CacheContext()
	srv := msgServer{Keeper: &e.k}
	_, err := srv.UpdateConsumer(cctx, msg)
	if err == nil {
		write()
	}
	vh.Reach("after-update")
	ownerAfter, oerr := e.k.GetConsumerOwnerAddress(e.ctx, cid)
	pspAfter, perr := e.k.GetConsumerPowerShapingParameters(e.ctx, cid)
	vh.Assert(oerr == nil && perr == nil, "C14.update.records-present")
	if err == nil {
		vh.Assert(sender == owner, "C14.update.only-current-owner-can-update")
		if newOwner >= 0 {
			vh.Assert(ownerAfter == vSender(newOwner), "C14.update.explicit-transfer-takes-effect")
		} else {
			vh.Assert(ownerAfter == vSender(owner), "C14.update.no-transfer-keeps-owner")
		}
	} else {
		vh.Assert(ownerAfter == vSender(owner), "C14.update.rejected-keeps-owner")
		vh.Assert(pspAfter.Top_N == topN0, "C14.update.rejected-keeps-topN")
	}
	vh.Assert(vh.Implies(pspAfter.Top_N > 0, ownerAfter == vAuthority), "C14.inv.topN-only-while-owned-by-authority")
	vh.Assert(vh.Or(pspAfter.Top_N == 0, vh.And(pspAfter.Top_N >= 50, pspAfter.Top_N <= 100)), "C14.inv.topN-in-50-100")
}

func vStakingAllActive(st *vStaking) {
	for i := 0; i < st.n; i++ {
		vh.Assume(st.isActive(i))
		vh.Assume(st.power[i] >= 1)
	}
}

// VerifC14RemoveAndGov: RemoveConsumer only from the owner of a launched
// consumer; UpdateParams / ChangeRewardDenoms only from the authority.
func VerifC14RemoveAndGov() {
	cid := "1"
	e := newVEnv(1)
	e.k.accountKeeper = vAccountKeeper{}
	p := vParams(100, 600)
	e.k.SetParams(e.ctx, p)
	phase := types.ConsumerPhase(vh.ConcretizeInt(vh.Int("phase"), 1, 5))
	e.k.SetConsumerPhase(e.ctx, cid, phase)
	owner := vh.ConcretizeInt(vh.Int("owner"), 0, 2)
	e.k.SetConsumerOwnerAddress(e.ctx, cid, vSender(owner))
	e.k.SetConsumerChainId(e.ctx, cid, "chainone")
	sender := vh.ConcretizeInt(vh.Int("sender"), 0, 2)
	srv := msgServer{Keeper: &e.k}

	cctx, write := e.ctx.CacheContext()
	_, err := srv.RemoveConsumer(cctx, &types.MsgRemoveConsumer{Owner: vSender(sender), ConsumerId: cid})
	if err == nil {
		write()
	}
	vh.Reach("after-remove")
	phaseAfter := e.k.GetConsumerPhase(e.ctx, cid)
	if err == nil {
		vh.Assert(sender == owner, "C14.remove.only-owner")
		vh.Assert(phase == types.CONSUMER_PHASE_LAUNCHED, "C14.remove.only-launched")
		vh.Assert(phaseAfter == types.CONSUMER_PHASE_STOPPED, "C14.remove.stops-consumer")
	} else {
		vh.Assert(phaseAfter == phase, "C14.remove.rejected-keeps-phase")
	}
	vh.Assert(vh.Implies(sender == owner && phase == types.CONSUMER_PHASE_LAUNCHED, err == nil), "C14.remove.owner-of-launched-consumer-succeeds")

	// governance-only messages
	_, err2 := srv.ChangeRewardDenoms(e.ctx, &types.MsgChangeRewardDenoms{Authority: vSender(sender), DenomsToAdd: []string{"ibc/ABC"}})
	vh.Assert((err2 == nil) == (sender == 2), "C14.reward-denoms.only-authority")
	_, registered := e.k.GetAllConsumerRewardDenoms(e.ctx), true
	_ = registered
	vh.Assert(e.k.ConsumerRewardDenomExists(e.ctx, "ibc/ABC") == (sender == 2), "C14.reward-denoms.changed-iff-authority")
}

// VerifC14ValidatorMsgs: MsgOptIn / MsgOptOut / MsgSetConsumerCommissionRate
// name a validator (ProviderAddr) and a signer: stateless validation accepts
// only the validator's own operator account as signer, and the handlers write
// only cells of the named validator.
func VerifC14ValidatorMsgs() {
	cid := "1"
	e := newVEnv(2)
	e.k.SetParams(e.ctx, vParams(100, 600))
	e.k.SetConsumerPhase(e.ctx, cid, types.CONSUMER_PHASE_LAUNCHED)
	e.k.SetConsumerChainId(e.ctx, cid, "chainone")
	vh.Assert(e.k.SetConsumerPowerShapingParameters(e.ctx, cid, types.PowerShapingParameters{}) == nil, "C14.val.setup")
	f := vInstallConsumerFlags(e, cid, "", false)
	named := vh.ConcretizeInt(vh.Int("named_validator"), 0, 1)
	signerOf := vh.ConcretizeInt(vh.Int("signer"), 0, 2) // 0,1: operator account of validator i; 2: unrelated user
	signer := vUser(0)
	if signerOf < 2 {
		signer = sdk.AccAddress(vOperator(signerOf)).String()
	}
	provAddr := vOperator(named).String()
	srv := msgServer{Keeper: &e.k}
	other := 1 - named
	pOther := types.NewProviderConsAddress(vConsAddr(other))
	_, hadRate := e.k.GetConsumerCommissionRate(e.ctx, cid, pOther)
	switch vh.Bound("msg", 0) {
	case 0:
		m := &types.MsgOptIn{ConsumerId: cid, ProviderAddr: provAddr, Signer: signer}
		verr := m.ValidateBasic()
		vh.Assert((verr == nil) == (signerOf == named), "C14.val.optin-accepted-only-from-the-validators-operator")
		if verr == nil {
			_, herr := srv.OptIn(e.ctx, m)
			vh.Assert(herr == nil, "C14.val.optin-succeeds")
			vh.Assert(e.k.IsOptedIn(e.ctx, cid, types.NewProviderConsAddress(vConsAddr(named))), "C14.val.optin-opts-in-the-named-validator")
		}
	case 1:
		m := &types.MsgOptOut{ConsumerId: cid, ProviderAddr: provAddr, Signer: signer}
		verr := m.ValidateBasic()
		vh.Assert((verr == nil) == (signerOf == named), "C14.val.optout-accepted-only-from-the-validators-operator")
		if verr == nil {
			_, _ = srv.OptOut(e.ctx, m)
		}
	case 3:
		// key assignment: the stateless check binds signer and validator (the handler's effect on
		// the key-assignment state is VerifC05AssignStep's subject)
		m := types.MsgAssignConsumerKey{ConsumerId: cid, ProviderAddr: provAddr, Signer: signer,
			ConsumerKey: `{"@type":"/cosmos.crypto.ed25519.PubKey","key":"Ui5Gf1+mtWUdH8u3xlmzdKID+F3PK0sfXZ73GZ6q6is="}`}
		verr := m.ValidateBasic()
		vh.Assert((verr == nil) == (signerOf == named), "C14.val.key-assignment-accepted-only-from-the-validators-operator")
	default:
		rate := math.LegacyNewDecWithPrec(3, 1)
		m := &types.MsgSetConsumerCommissionRate{ConsumerId: cid, ProviderAddr: provAddr, Signer: signer, Rate: rate}
		verr := m.ValidateBasic()
		vh.Assert((verr == nil) == (signerOf == named), "C14.val.commission-accepted-only-from-the-validators-operator")
		if verr == nil {
			_, herr := srv.SetConsumerCommissionRate(e.ctx, m)
			vh.Assert(herr == nil, "C14.val.commission-succeeds")
			got, found := e.k.GetConsumerCommissionRate(e.ctx, cid, types.NewProviderConsAddress(vConsAddr(named)))
			vh.Assert(found && got.Equal(rate), "C14.val.commission-set-for-the-named-validator")
		}
	}
	vh.Reach("after-msg")
	vh.Assert(e.k.IsOptedIn(e.ctx, cid, pOther) == f.opted[other], "C14.val.other-validators-optin-untouched")
	_, hasRate := e.k.GetConsumerCommissionRate(e.ctx, cid, pOther)
	vh.Assert(hasRate == hadRate, "C14.val.other-validators-commission-untouched")
}

// VerifC14CreateAndParams: MsgCreateConsumer never creates a Top-N consumer
// (whoever submits it, the authority included) and makes the submitter the
// owner of a registered / initialized consumer; MsgUpdateParams from anybody
// but the authority is rejected and changes nothing.
func VerifC14CreateAndParams() {
	e := newVEnv(1)
	e.k.accountKeeper = vAccountKeeper{}
	p := vParams(100, 600)
	e.k.SetParams(e.ctx, p)
	e.k.setConsumerId(e.ctx, 3)
	sender := vh.ConcretizeInt(vh.Int("sender"), 0, 2)
	topN := uint32(vh.ConcretizeInt(vh.Int("topN"), 0, 2) * 50) // 0, 50, 100
	withPSP := vh.ConcretizeInt(vh.Int("with_power_shaping"), 0, 1) == 1
	msg := &types.MsgCreateConsumer{Submitter: vSender(sender), ChainId: "chainone-1", Metadata: types.ConsumerMetadata{Name: "n", Description: "d", Metadata: "m"}}
	if withPSP {
		msg.PowerShapingParameters = &types.PowerShapingParameters{Top_N: topN, ValidatorSetCap: 7}
	}
	srv := msgServer{Keeper: &e.k}
	cctx, write := e.ctx.CacheContext()
	resp, err := srv.CreateConsumer(cctx, msg)
	if err == nil {
		write()
	}
	vh.Reach("after-create")
	vh.InfoErr(err)
	vh.Assert((err != nil) == (withPSP && topN != 0), "C14.create.rejected-iff-topN-requested")
	if err == nil {
		cid := resp.ConsumerId
		vh.Assert(cid == "3", "C14.create.next-consumer-id")
		owner, oerr := e.k.GetConsumerOwnerAddress(e.ctx, cid)
		vh.Assert(oerr == nil && owner == vSender(sender), "C14.create.submitter-becomes-owner")
		psp, perr := e.k.GetConsumerPowerShapingParameters(e.ctx, cid)
		vh.Assert(perr == nil && psp.Top_N == 0, "C14.create.opt-in-consumer-only")
		vh.Assert(vh.Implies(withPSP, psp.ValidatorSetCap == 7), "C14.create.power-shaping-recorded")
		vh.Assert(e.k.GetConsumerPhase(e.ctx, cid) == types.CONSUMER_PHASE_REGISTERED, "C14.create.registered")
	} else {
		n, found := e.k.GetConsumerId(e.ctx)
		vh.Assert(found && n == 3, "C14.create.rejection-changes-nothing")
		vh.Assert(e.k.GetConsumerPhase(e.ctx, "3") == types.CONSUMER_PHASE_UNSPECIFIED, "C14.create.rejection-changes-nothing")
	}
	// provider parameters: only the authority
	if sender != 2 {
		p2 := vParams(50, 300)
		_, perr := srv.UpdateParams(e.ctx, &types.MsgUpdateParams{Authority: vSender(sender), Params: p2})
		vh.Assert(perr != nil, "C14.params.only-authority")
		got := e.k.GetParams(e.ctx)
		vh.Assert(got.MaxProviderConsensusValidators == 100 && got.BlocksPerEpoch == 600, "C14.params.rejected-update-changes-nothing")
	}
}
