//go:build verif

package keeper

import (
	clienttypes "github.com/cosmos/ibc-go/v10/modules/core/02-client/types"
	channeltypes "github.com/cosmos/ibc-go/v10/modules/core/04-channel/types"

	"github.com/cosmos/interchain-security/v7/x/ccv/provider/types"
	ccv "github.com/cosmos/interchain-security/v7/x/ccv/types"
	"github.com/cosmos/interchain-security/v7/x/ccv/vh"
)

// VerifC01QueueVSC (L3): one QueueVSCPackets for a launched opt-in consumer
// with an arbitrary previously stored validator set and arbitrary opt-ins: the
// stored set becomes the freshly computed one, a packet is queued iff the set
// changed, it carries exactly the difference, the update id in force before
// the increment and the pending slash acks (consumed once); the id increases
// by exactly one.
func VerifC01QueueVSC() {
	nv := vh.Bound("vals", 2)
	cid := "1"
	e, _, _, _ := vC17Env()
	e.st = newVStaking(nv, "s_")
	e.k.stakingKeeper = e.st
	vStakingContract(e.st)
	for i := 0; i < nv; i++ {
		for j := 0; j < nv; j++ {
			if i != j { // F1 region excluded (decided by C02)
				vh.Assume(vh.Implies(e.st.power[i] == e.st.power[j], e.st.vals[i].Tokens.Equal(e.st.vals[j].Tokens)))
			}
		}
	}
	e.k.SetConsumerPhase(e.ctx, cid, types.CONSUMER_PHASE_LAUNCHED)
	e.k.SetConsumerClientId(e.ctx, cid, "07-tendermint-0")
	vh.Assert(e.k.SetConsumerPowerShapingParameters(e.ctx, cid, types.PowerShapingParameters{AllowInactiveVals: true}) == nil, "C01.queue.setup")
	id0 := vh.Uint64("vscid")
	vh.Assume(id0 >= 1)
	vh.Assume(id0 <= 1<<50)
	e.k.SetValidatorSetUpdateId(e.ctx, id0)
	hasAck := vh.ConcretizeInt(vh.Int("has_slash_ack"), 0, 1) == 1
	if hasAck {
		e.k.SetSlashAcks(e.ctx, cid, []string{"ack-address"})
	}
	prev := vNewSet(nv)
	for i := 0; i < nv; i++ {
		prev.in[i] = vh.Bool(vh.Sprintf("stored%d", i))
		prev.power[i] = vh.Int64(vh.Sprintf("storedpower%d", i))
		vh.Assume(prev.power[i] >= 1)
		if vh.Guard(prev.in[i]) {
			pk := vPubKey(i)
			_ = e.k.SetConsumerValidator(e.ctx, cid, types.ConsensusValidator{ProviderConsAddr: vConsAddr(i), Power: prev.power[i], PublicKey: &pk})
		}
		vh.EndGuard()
		if vh.Guard(vh.Bool(vh.Sprintf("opted%d", i))) {
			e.k.SetOptedIn(e.ctx, cid, types.NewProviderConsAddress(vConsAddr(i)))
		}
		vh.EndGuard()
	}
	pendBefore := len(e.k.GetPendingVSCPackets(e.ctx, cid))

	err := e.k.QueueVSCPackets(e.ctx)

	vh.Reach("after-queue")
	vh.Assert(err == nil, "C01.queue.no-error")
	vh.Assert(e.k.GetValidatorSetUpdateId(e.ctx) == id0+1, "C12.id-increases-by-exactly-one-per-epoch")
	stored, _ := e.k.GetConsumerValSet(e.ctx, cid)
	now, ok := vSetOf(stored, nv)
	vh.Assert(ok, "C01.queue.stored-set-keys-distinct")
	for i := 0; i < nv; i++ {
		want := vh.And(e.st.isActive(i), e.k.IsOptedIn(e.ctx, cid, types.NewProviderConsAddress(vConsAddr(i))))
		vh.Assert(now.in[i] == want, "C01.queue.stored-set-is-the-freshly-computed-set")
		vh.Assert(vh.Implies(now.in[i], now.power[i] == e.st.power[i]), "C01.queue.stored-powers-are-provider-powers")
	}
	pend := e.k.GetPendingVSCPackets(e.ctx, cid)
	changed := !vSetEq(prev, now, nv)
	vh.Assert((len(pend) == pendBefore+1) == changed, "C01.queue.packet-queued-iff-set-changed")
	if len(pend) == pendBefore+1 {
		p := pend[pendBefore]
		vh.Assert(p.ValsetUpdateId == id0, "C12.packet-carries-the-id-in-force-before-the-increment")
		got, wf := vApply(prev, p.ValidatorUpdates, nv)
		vh.Assert(wf, "C01.queue.packet-updates-wellformed")
		vh.Assert(vSetEq(got, now, nv), "C01.queue.packet-carries-exactly-the-difference")
		if hasAck {
			vh.Assert(len(p.SlashAcks) == 1 && p.SlashAcks[0] == "ack-address", "C08.slash-acks-ride-on-the-next-packet")
			vh.Assert(len(e.k.GetSlashAcks(e.ctx, cid)) == 0, "C08.slash-acks-consumed-once")
		}
	} else if hasAck {
		vh.Assert(len(e.k.GetSlashAcks(e.ctx, cid)) == 1, "C08.slash-acks-kept-until-a-packet-is-queued")
	}
}

// VerifC01SendVSC (L4): SendVSCPacketsToChain over a queue of n packets with a
// symbolic failure position and error kind.
func VerifC01SendVSC() {
	n := vh.Bound("packets", 3)
	cid := "1"
	e, _, _, chk := vC17Env()
	e.k.SetConsumerPhase(e.ctx, cid, types.CONSUMER_PHASE_LAUNCHED)
	chk.channels["channel-0"] = channeltypes.Channel{State: channeltypes.OPEN}
	for i := 0; i < n; i++ {
		e.k.AppendPendingVSCPackets(e.ctx, cid, ccv.ValidatorSetChangePacketData{ValsetUpdateId: uint64(10 + i)})
	}
	failAt := vh.ConcretizeInt(vh.Int("fail_at"), 0, n) // n: no failure
	expired := vh.ConcretizeInt(vh.Int("client_expired"), 0, 1) == 1
	if failAt < n {
		chk.failFrom = failAt
		if expired {
			chk.sendErr = clienttypes.ErrClientNotActive
		} else {
			chk.sendErr = channeltypes.ErrInvalidChannelState
		}
	}
	err := e.k.SendVSCPacketsToChain(e.ctx, cid, "channel-0")
	vh.Reach("after-send")
	vh.Assert(err == nil, "C19.send-never-returns-an-error")
	vh.Assert(len(chk.sent) == failAt, "C01.send.packets-leave-in-fifo-order-until-the-failure")
	for i, s := range chk.sent {
		var d ccv.ValidatorSetChangePacketData
		ccv.ModuleCdc.MustUnmarshalJSON(s.data, &d)
		vh.Assert(d.ValsetUpdateId == uint64(10+i), "C01.send.fifo-order")
	}
	left := e.k.GetPendingVSCPackets(e.ctx, cid)
	if failAt == n {
		vh.Assert(len(left) == 0, "C01.send.queue-deleted-after-all-sent")
		vh.Assert(e.k.GetConsumerPhase(e.ctx, cid) == types.CONSUMER_PHASE_LAUNCHED, "C01.send.success-keeps-consumer-launched")
	} else {
		vh.Assert(len(left) == n, "C01.send.queue-kept-on-failure")
		if expired {
			vh.Assert(e.k.GetConsumerPhase(e.ctx, cid) == types.CONSUMER_PHASE_LAUNCHED, "C01.send.expired-client-leaves-consumer-running")
		} else {
			vh.Assert(e.k.GetConsumerPhase(e.ctx, cid) == types.CONSUMER_PHASE_STOPPED, "C11.send-failure-stops-consumer")
		}
	}
}
