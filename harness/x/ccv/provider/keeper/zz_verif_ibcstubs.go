//go:build verif

package keeper

import (
	clienttypes "github.com/cosmos/ibc-go/v10/modules/core/02-client/types"
	conntypes "github.com/cosmos/ibc-go/v10/modules/core/03-connection/types"
	channeltypes "github.com/cosmos/ibc-go/v10/modules/core/04-channel/types"
	ibcexported "github.com/cosmos/ibc-go/v10/modules/core/exported"
	ibctmtypes "github.com/cosmos/ibc-go/v10/modules/light-clients/07-tendermint"

	sdk "github.com/cosmos/cosmos-sdk/types"

	ccvtypes "github.com/cosmos/interchain-security/v7/x/ccv/types"
)

// ---- connection keeper: connection-i is built on client vClientId(connClient[i])

type vConnKeeper struct {
	connClient map[string]string
	counter    map[string]string
}

func (c *vConnKeeper) GetConnection(ctx sdk.Context, connectionID string) (conntypes.ConnectionEnd, bool) {
	cl, ok := c.connClient[connectionID]
	if !ok {
		return conntypes.ConnectionEnd{}, false
	}
	return conntypes.ConnectionEnd{ClientId: cl, Counterparty: conntypes.Counterparty{ConnectionId: "connection-cp"}}, true
}

// ---- client keeper

type vClientKeeper struct {
	ccvtypes.ClientKeeper
	chainIds   map[string]string // client id -> chain id of the tendermint client state
	created    []string
	nextId     int
	failCreate bool
	failOnCall int // when > 0: only the failOnCall-th CreateClient call fails
	calls      int
	notTm      map[string]bool
}

func (c *vClientKeeper) GetClientState(ctx sdk.Context, clientID string) (ibcexported.ClientState, bool) {
	ch, ok := c.chainIds[clientID]
	if !ok {
		return nil, false
	}
	return &ibctmtypes.ClientState{ChainId: ch, LatestHeight: clienttypes.Height{RevisionNumber: 1, RevisionHeight: 5}}, true
}

func (c *vClientKeeper) CreateClient(ctx sdk.Context, clientType string, clientState, consensusState []byte) (string, error) {
	c.calls++
	if c.failCreate || (c.failOnCall > 0 && c.calls == c.failOnCall) {
		return "", clienttypes.ErrInvalidClientType
	}
	id := "07-tendermint-9"
	if c.nextId > 0 {
		id = "07-tendermint-8"
	}
	c.nextId++
	c.created = append(c.created, id)
	c.chainIds[id] = "created"
	return id, nil
}

// ---- channel keeper

type vSent struct {
	channel string
	data    []byte
}

type vChannelKeeper struct {
	ccvtypes.ChannelKeeper
	channels  map[string]channeltypes.Channel // by channel id (provider port)
	sent      []vSent
	sendErr   error // returned by SendPacket for every packet at index >= failFrom
	failFrom  int
	closed    []string
	closeErr  error
}

func (c *vChannelKeeper) GetChannel(ctx sdk.Context, srcPort, srcChan string) (channeltypes.Channel, bool) {
	ch, ok := c.channels[srcChan]
	return ch, ok
}

func (c *vChannelKeeper) SendPacket(ctx sdk.Context, sourcePort, sourceChannel string, timeoutHeight clienttypes.Height, timeoutTimestamp uint64, data []byte) (uint64, error) {
	if c.sendErr != nil && len(c.sent) >= c.failFrom {
		return 0, c.sendErr
	}
	c.sent = append(c.sent, vSent{sourceChannel, data})
	return uint64(len(c.sent)), nil
}

func (c *vChannelKeeper) ChanCloseInit(ctx sdk.Context, portID, channelID string) error {
	if c.closeErr != nil {
		return c.closeErr
	}
	c.closed = append(c.closed, channelID)
	return nil
}
