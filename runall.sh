#!/bin/bash
# run the quick (or given) tier of several properties in parallel; logs under replays/logs
cd "$(dirname "$0")"
tier=${TIER:-quick}
mkdir -p replays/logs
props="$@"
if [ -z "$props" ]; then props=$(python3 -c "import json;print(' '.join(c['property_id'] for c in json.load(open('MANIFEST.json'))['checks']))"); fi
for p in $props; do
  ( python3 vcheck.py $p --tier $tier > replays/logs/$p.$tier.log 2>&1; echo "$p exit=$?" ) &
  sleep 2
done
wait
for p in $props; do tail -1 replays/logs/$p.$tier.log; done
