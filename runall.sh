#!/bin/bash
# run the quick (or $TIER) tier of several properties, $PAR at a time; logs under replays/logs
cd "$(dirname "$0")"
tier=${TIER:-quick}
par=${PAR:-4}
mkdir -p replays/logs
props="$@"
if [ -z "$props" ]; then props=$(python3 -c "import json;print(' '.join(c['property_id'] for c in json.load(open('MANIFEST.json'))['checks']))"); fi
echo $props | tr ' ' '\n' | xargs -P $par -I{} sh -c "python3 vcheck.py {} --tier $tier > replays/logs/{}.$tier.log 2>&1; echo {} exit=\$?"
for p in $props; do tail -1 replays/logs/$p.$tier.log; done
