#!/usr/bin/env python3
"""Regenerate the seeded-changes table of DESIGN.md (between the SEEDS markers) from seeded/*/meta.json."""
import json, os, re
V = os.path.dirname(os.path.abspath(__file__))
notes = {
 "C01": ("VerifC01Accumulate (C01.acc.batch-equals-one-by-one)", "caught as built"),
 "C02": ("VerifC02NextValidators (C02.member-in-provider-active-set, outside the F1 region)", "caught as built"),
 "C03": ("VerifC03TopNStep (C03.step.threshold-is-computed-over-the-active-set)", "missed by the first version (only the threshold kernel and opt-out were checked); the epoch-step harness was added"),
 "C04": ("VerifC04PowerCap via a range obligation replayed natively (int64 wrap of sum*percent)", "missed by the first version: overflow findings were only reported as inconclusive; vcheck now replays them natively and reports the assertions that fail on the wrapped values"),
 "C05": ("VerifC05NewValidatorHook (C05.hook.new-validator-cannot-reuse-a-key-known-on-an-active-consumer)", "missed by the first version (no hook harness); harness added"),
 "C06": ("VerifC05AssignStep (C05.assign.rejected-iff-rule-applies)", "caught as built"),
 "C07": ("VerifC07DoubleVoting (C07.slashed-power-counts-unbonding-and-redelegating-stake)", "caught as built"),
 "C08": ("VerifC08SlashPacket addrcase 1 (C08.ack-names-the-reported-consumer-address)", "caught as built"),
 "C09": ("VerifC08SlashPacket addrcase 1 (C09.meter-deducted-by-jailed-power)", "the harness caught it, but check C09 only ran address case 0 and held; C09 now runs all four address cases"),
 "C10": ("VerifC19LaunchMany (C19.failed-launch-clears-spawn-time), run by C10 and C19", "caught as built"),
 "C11": ("VerifC11Delete with the channel already CLOSED / unknown", "missed by the first version (channel always OPEN); channel state became a case split"),
 "C12": ("VerifC08SlashPacket (C08.unmapped-vscid-is-an-error, double-sign packet)", "the harness caught it under check C08; C12 now runs it too"),
 "C13": ("VerifC20UpdateQueued / VerifC13Frame op 4 (two consumers due at the same instant)", "caught as built"),
 "C14": ("VerifC14UpdateConsumer (C14.inv.topN-only-while-owned-by-authority)", "caught as built"),
 "C15": ("VerifC15ProviderSet with M any positive int64", "missed by the first version (M bounded by V+1); bound lifted"),
 "C16": ("VerifC16Allocate (C16.credit-equals-paid-plus-community-pool-plus-remaining-credit)", "caught as built"),
 "C17": ("VerifC17Handshake (C17.confirm-accepted-iff-same-conditions)", "caught as built"),
 "C18": ("VerifC18MapOrder (C18.accumulate-independent-of-map-order)", "missed at first by the native confirmation (one native run rarely hits the bad map order); the replay now repeats the harness 500 times"),
 "C19": ("VerifC19LaunchMany with client creation failing on the first call only", "missed by the first version: the failure position became a choice and cache contexts became true overlays in the engine"),
 "C20": ("VerifC20BeginBlockMany (202 consumers due at once)", "missed by the first version (few consumers); a harness with more than 200 due consumers was added"),
}

notes.update({
 "C01-r2": ("consumer VerifC01ConsumerApply (engine receives a removal of a validator it never had)", "caught as built"),
 "C02-r2": ("VerifC02ListUpdate (C02.lists.index-holds-exactly-the-latest-list)", "missed by the first version (list updates through SetConsumerPowerShapingParameters were not exercised); harness added, run by C02 and C04"),
 "C03-r2": ("VerifC03MinPower (C03.minpower.set-holds-N-percent)", "caught as built; the patch was rebased onto the F2 repair (same rounding, applied to the exact comparison), the sub-agent's original is kept as patch.orig.diff"),
 "C04-r2": ("VerifC02ListUpdate (priority-list index stale after an update differing only in the first entry)", "caught by the harness added for C02-r2"),
 "C05-r2": ("VerifC05ValidatorRemoved (C05.removed.assignment-record-of-removed-validator-deleted)", "no harness for the validator-removal hook existed; added while the seed was being written (predicted from the patch), then confirmed"),
 "C06-r2": ("VerifC06Prune (C06.prune.other-consumers-entries-kept)", "the pruning harness had a single consumer; a second consumer whose keys sort first was added (predicted from the patch), then confirmed"),
 "C07-r2": ("VerifC07Misbehaviour (C07.misbehaviour-accepted-iff-valid-and-some-signer-punishable)", "missed by the first version (no light-client misbehaviour harness); harness added with the light-client module replaced by its declared verdict, violation replayed against the real module"),
 "C08-r2": ("VerifC01QueueVSC (C08.slash-acks-kept-until-a-packet-is-queued)", "the harness caught it under check C01; C08 now runs it too"),
 "C09-r2": ("consumer VerifC09ConsumerSend (C09.consumer.vsc-matured-ack-leaves-the-queue-alone)", "missed by the first version (only the slash packet's acknowledgement was applied); acknowledgements of the vsc-matured packets sent ahead were added"),
 "C10-r2": ("VerifC10UpdatePhase (C10.inv.initialized-scheduled-exactly-once-at-its-spawn-time)", "caught as built"),
 "C12-r2": ("consumer VerifC08ConsumerReports (C12.consumer.slash-packet-carries-id-of-infraction-height)", "caught as built"),
 "C13-r2": ("VerifC16AllocateLoop (C16.loop.unregistered-denom-never-paid)", "the harness caught it under check C16; C13 now runs it too"),
 "C11-r2": ("VerifC11RemoveBatch (C11.batch.every-due-stopped-consumer-is-deleted)", "the deletion harness had a single queue entry; a batch harness with failing entries at any position was added (predicted from the patch), then confirmed"),
 "C15-r2": ("VerifC15Genesis (C15.genesis.recorded-set-is-top-M-by-staking-order)", "no genesis harness existed; added (predicted from the patch), then confirmed"),
 "C20-r2": ("VerifC20UpdateQueued (request equal to the values in force must cancel the pending change)", "caught as built"),
 "C16-r2": ("VerifC16AllocateLoop (C16.loop.unregistered-denom-never-paid)", "caught as built"),
 "C17-r2": ("VerifC17LaunchBinding op=1 (C17.launch-on-connection-preserves-one-to-one-bindings)", "caught as built (holders of a client are now explicitly launched or stopped)"),
 "C18-r2": ("VerifC18MapOrder (DiffValidators output depends on the map order)", "caught as built"),
 "C19-r2": ("VerifC19AllocateRollback (C19.alloc.pool-falls-by-exactly-what-the-credit-fell)", "the bank / distribution stubs were plain Go state that no cache context rolls back, so a shared cache across denoms was invisible; store-backed stubs and a two-denom harness were added (predicted from the patch), then confirmed"),
 "C14-r2": ("VerifC05AssignStep (C05.assign.rejected-iff-rule-applies)", "the harness caught it under check C05; C14 now runs it too"),
})


notes.update({
 "C01-r3": ("package consumer VerifC01ConsumerEndBlock (engine asked to remove a key it never had)", "missed by the first version: the consumer harness replayed the end-block flush by hand instead of calling the module's EndBlock; a harness driving AppModule.EndBlock was added"),
 "C02-r3": ("VerifC03TopNStep (C03.step.threshold-is-computed-over-the-active-set)", "the harness caught it under check C03; C02 now runs it too"),
 "C05-r3": ("VerifC05AssignStep (C05.assign.rejected-iff-rule-applies: own recently replaced key)", "caught as built"),
 "C07-r3": ("VerifC20UpdateQueued (C20.update.different-request-is-queued)", "missed by the first version: the harness's oracle called the repository's own compareInfractionParameters, so it changed together with the code under test; the oracle now has its own equality, and C07 runs the harness"),
 "C08-r3": ("consumer VerifC08ConsumerReports (C08.consumer.power-update-is-not-an-acknowledgement)", "missed by the first version (no validator-set change was applied between report and acknowledgement); step added (predicted from the agent's report), then confirmed"),
 "C10-r3": ("VerifC10UpdatePhase (C10.inv.initialized-scheduled-exactly-once-at-its-spawn-time)", "caught as built"),
 "C11-r3": ("VerifC11Stop (C11.stop.nothing-sent-to-stopped-consumer)", "caught as built"),
 "C14-r3": ("VerifC14ValidatorMsgs msg=0 (C14.val.optin-accepted-only-from-the-validators-operator)", "caught as built"),
 "C16-r3": ("package provider VerifC16Middleware (multi-hop voucher coming back)", "the harness had only single-hop returning denoms; a forwarded voucher was added (predicted from the agent's report), then confirmed"),
 "C19-r3": ("VerifC20UpdateQueued (C20.update.cancelled-request-not-scheduled-at-due-time / older-pending-entry-replaced)", "the harness caught it under check C20; C19 now runs the queue harnesses too"),
})

rows = []
sd = os.path.join(V, "seeded")
for d in sorted(os.listdir(sd)):
    mp = os.path.join(sd, d, "meta.json")
    if not os.path.exists(mp):
        continue
    m = json.load(open(mp))
    summ = (m.get("summary") or "").replace("\n", " ").replace("|", "/")
    if len(summ) > 230:
        summ = summ[:227] + "..."
    by, note = notes.get(d, ("", ""))
    if not by and m.get("violation_lines"):
        hs = sorted(set(re.findall(r"replays/C\d+/(Verif[A-Za-z0-9]+)-", " ".join(m["violation_lines"]))))
        by = ", ".join(hs)
    rows.append("| %s | %s | %s | %s | %s |" % (d, m.get("property"), summ, "**caught**" if m.get("detected") else "**MISSED**", (by + ("; " + note if note else ""))))
table = "| seed | property | change (written by an independent sub-agent from the property text only) | result | deciding harness / what had to be strengthened |\n|---|---|---|---|---|\n" + "\n".join(rows)
p = os.path.join(V, "DESIGN.md")
s = open(p).read()
block = "<!-- SEEDS-BEGIN -->\n" + table + "\n<!-- SEEDS-END -->"
if "<!-- SEEDS-BEGIN -->" in s:
    s = re.sub(r"<!-- SEEDS-BEGIN -->.*?<!-- SEEDS-END -->", lambda _: block, s, flags=re.S)
else:
    marker = "---------------------------------------------------------------------------------------------------\n\n## 1. Why this reaches"
    sec = """### 0.4 Seeded changes: which check catches which change

Each change below was written by a fresh sub-agent that saw only the text of one property and a
scratch worktree of `/repo`; it compiles, passes the repository's tests and comes with a
demonstration test that fails with it and passes without it (all re-confirmed in a scratch
worktree by `seedcheck.sh`, see `seeded/<id>/meta.json`).  The registered quick check of the
property was then run with the change applied.

""" + block + "\n\n"
    s = s.replace(marker, sec + marker)
open(p, "w").write(s)
print(len(rows), "seeds in table")
