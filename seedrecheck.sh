#!/bin/bash
# seedrecheck.sh <seed-id> <checks...>: re-run /verif checks against /repo with the seeded change
# applied (after a check was strengthened); output is appended to the seed's seedcheck.log.
sid=$1; shift
out=${OUT_BASE:-/tmp/seedout}/$sid
git -C /repo apply $out/patch.diff || { echo "PATCH DOES NOT APPLY TO /repo"; exit 2; }
cd /verif
echo "--- /verif checks (strengthened) against /repo WITH change" | tee -a $out/seedcheck.log
for c in "$@"; do
  python3 vcheck.py $c --tier quick --no-evidence 2>&1 | grep -E "^(VIOLATION|KNOWN-FINDING|INCONCLUSIVE|ERROR|C[0-9]+ |  harness)" | cut -c1-500 | head -12 | tee -a $out/seedcheck.log
done
git -C /repo checkout -- . ; git -C /repo status --short | grep -v testdata
